// C04 — crash recovery exposes exactly a prefix of the log, atomically and only once.
//
// Fault model = pebble's strict MemFS (file data durable up to the file's last Sync, directory
// entries up to the directory's last Sync), wrapped by crashfs which numbers every mutating
// file-system operation. A scenario (first open, apply batches, Sync, close/reopen, snapshot
// recovery of both formats into a non-empty table, stopped recovery) is first run crash-free to
// count its operations N, then re-run with "crash just before operation k" for every k in 1..N
// (sampled for big N), optionally with a second crash during the replay. After each crash a new
// FSM object is opened on what was durable and judged.
package main

import (
	"bytes"
	"errors"
	"fmt"
	"io"
	"os"
	"runtime/debug"
	"sort"
	"strings"
	"sync"
	"sync/atomic"
	"time"

	pb "github.com/jamf/regatta/regattapb"
	"github.com/jamf/regatta/storage/table/fsm"
	sm "github.com/lni/dragonboat/v4/statemachine"

	"verifharness/internal/crashfs"
	"verifharness/internal/ev"
	"verifharness/internal/fsmx"
	"verifharness/internal/gen"
	"verifharness/internal/judge"
	"verifharness/internal/model"
)

type step struct {
	Kind string `json:"kind"` // apply | sync | reopen | recover | recover-stopped
	N    int    `json:"n,omitempty"`
	// recover: snapshot taken by a saver that applied the first At entries; formats saver->receiver
	At      int                      `json:"at,omitempty"`
	SaveFmt fsm.SnapshotRecoveryType `json:"save_fmt,omitempty"`
}

type scenario struct {
	Seed    int64                    `json:"case_seed"`
	Big     bool                     `json:"big_values,omitempty"`
	RecvFmt fsm.SnapshotRecoveryType `json:"recv_fmt"`
	Steps   []step                   `json:"steps"`

	entries []sm.Entry
	states  map[uint64]*model.Table // model state after entry index
	results map[uint64]model.Result
	order   []uint64
	snaps   map[int][]byte // step index -> snapshot bytes
}

type witness struct {
	Scenario scenario `json:"scenario"`
	Log      []string `json:"log"`
	CrashAt  int      `json:"crash_at_op"`
	CrashOp  string   `json:"crash_op"`
	Second   int      `json:"second_crash_at_op,omitempty"`
	OpsTail  []string `json:"ops_before_crash"`
	What     string   `json:"what"`
}

func buildScenario(seed int64, small bool) *scenario { return buildScenarioX(seed, small, false) }

// buildScenarioX: big scenarios write 1-2 MiB values (plain write followed by a reading command in
// the same apply call) so that the 16 MiB memtable rotates and flushes in the background at
// arbitrary points INSIDE apply calls; without a write-ahead log that is the only way a crash can
// separate two commits of one apply call.
func buildScenarioX(seed int64, small, big bool) *scenario {
	g := gen.New(seed)
	g.NewPool(4 + g.R.Intn(4))
	s := &scenario{Seed: seed, Big: big, RecvFmt: fsm.SnapshotRecoveryType(g.R.Intn(2)), states: map[uint64]*model.Table{}, results: map[uint64]model.Result{}, snaps: map[int][]byte{}}
	n := 6 + g.R.Intn(14)
	if small {
		n = 4 + g.R.Intn(6)
	}
	if big {
		n = 24 + g.R.Intn(12)
		if seed%4 == 1 {
			n = 42
		}
		if seed%4 == 3 {
			n = 34 + g.R.Intn(8)
		}
	}
	m := model.NewTable()
	g.Peek = func(k []byte) ([]byte, bool) { v, ok := m.M[string(k)]; return v, ok }
	s.states[0] = m.Clone()
	var idx, li uint64
	for i := 0; i < n; i++ {
		idx += 1 + uint64(g.R.Intn(4))/3
		c := g.Command(1)
		if g.R.Intn(3) == 0 {
			c = &pb.Command{Table: []byte("t"), Type: pb.Command_TXN, Txn: g.Txn(false)}
		}
		pairs := big && seed%2 == 0 // template: every apply call = [big blind write, small reading write]
		if pairs {
			// both of (about) 1 MiB, a handful of keys overwritten again and again: the growing
			// memtables (256 KiB ... 16 MiB) rotate at changing positions inside the apply calls
			sz := 1 << 20
			if seed%4 == 2 {
				sz = 1<<20 - 4096 + g.R.Intn(8192)
			}
			v := make([]byte, sz)
			copy(v, fmt.Sprintf("pair-%d", i))
			if i%2 == 0 {
				c = &pb.Command{Table: []byte("t"), Type: pb.Command_PUT, Kv: &pb.KeyValue{Key: []byte(fmt.Sprintf("plain-%02d", (i/2)%5)), Value: v}}
			} else {
				c = &pb.Command{Table: []byte("t"), Type: pb.Command_PUT, Kv: &pb.KeyValue{Key: []byte(fmt.Sprintf("prev-%02d", (i/2)%5)), Value: v}, PrevKvs: true}
			}
		} else if big && seed%4 == 1 {
			// template: a big write (flushed in the background at once), then a small one that
			// stays in the memtable while that flush is still running
			if i%2 == 0 {
				v := make([]byte, 1<<20+g.R.Intn(1<<20))
				copy(v, fmt.Sprintf("big-%d", i))
				c = &pb.Command{Table: []byte("t"), Type: pb.Command_PUT, Kv: &pb.KeyValue{Key: g.Key(), Value: v}}
			} else {
				c = &pb.Command{Table: []byte("t"), Type: pb.Command_PUT, Kv: &pb.KeyValue{Key: g.Key(), Value: []byte(fmt.Sprintf("small-%d", i))}}
			}
		} else if big && (seed%4 == 3 || g.R.Intn(4) > 0) {
			v := make([]byte, 1<<20+g.R.Intn(1<<20))
			copy(v, fmt.Sprintf("big-%d", i))
			// alternate plain writes and reading writes (prev_kv makes the apply batch indexed)
			c = &pb.Command{Table: []byte("t"), Type: pb.Command_PUT, Kv: &pb.KeyValue{Key: g.Key(), Value: v}, PrevKvs: i%2 == 1}
		} else if big {
			// a small write between the big ones: it goes to the memtable while the flush of the
			// big write before it is still running in the background
			c = &pb.Command{Table: []byte("t"), Type: pb.Command_PUT, Kv: &pb.KeyValue{Key: g.Key(), Value: []byte(fmt.Sprintf("small-%d", i))}, PrevKvs: i%2 == 1}
		}
		if g.R.Intn(3) == 0 {
			li += 1 + uint64(g.R.Intn(5))
			v := li
			c.LeaderIndex = &v
		}
		e := fsmx.Entry(idx, c)
		s.entries = append(s.entries, e)
		s.results[idx] = m.Apply(idx, fsmx.Decoded(e))
		s.states[idx] = m.Clone()
		s.order = append(s.order, idx)
	}
	// steps
	pos := 0
	didRecover := false
	if big && seed%2 == 0 {
		for pos < n {
			c := 2
			if c > n-pos {
				c = n - pos
			}
			s.Steps = append(s.Steps, step{Kind: "apply", N: c})
			pos += c
			if pos == 2 || g.R.Intn(10) == 0 {
				s.Steps = append(s.Steps, step{Kind: "sync"})
			}
		}
	}
	if big && seed%4 == 1 {
		for pos < n {
			s.Steps = append(s.Steps, step{Kind: "apply", N: 1})
			pos++
			// the engine starts a background flush only once about 8 MiB of memtables and big
			// batches are queued: several pairs between two syncs, and a sync attempt (after the
			// store went idle) behind every pair from the fourth on
			if pos%2 == 0 && (pos/2)%7 >= 4 {
				s.Steps = append(s.Steps, step{Kind: "idle"}, step{Kind: "sync-if-background-flush-ran"})
			}
		}
	}
	for pos < n {
		k := g.R.Intn(10)
		if big && k >= 6 {
			k = g.R.Intn(5) // big scenarios: apply calls and a rare sync only
			if g.R.Intn(8) == 0 {
				k = 5
			}
		}
		switch {
		case k < 5:
			c := 1 + g.R.Intn(4)
			if big && (g.R.Intn(3) == 0 || pos == 0) {
				c = 12 + g.R.Intn(5) // one apply call accumulating well over 16 MiB
			}
			if c > n-pos {
				c = n - pos
			}
			s.Steps = append(s.Steps, step{Kind: "apply", N: c})
			pos += c
			if big && g.R.Intn(3) > 0 {
				// the store is left alone until its background work (memtable flush) has ended, then
				// synced: a Sync() that finds nothing in flight
				s.Steps = append(s.Steps, step{Kind: "idle"}, step{Kind: "sync"})
			}
		case k < 7:
			s.Steps = append(s.Steps, step{Kind: "sync"})
		case k < 8:
			s.Steps = append(s.Steps, step{Kind: "reopen"})
		default:
			if pos < n-1 && !didRecover {
				at := pos + 1 + g.R.Intn(n-pos-1)
				s.Steps = append(s.Steps, step{Kind: "recover", At: at, SaveFmt: fsm.SnapshotRecoveryType(g.R.Intn(2))})
				pos = at
				didRecover = true
			}
		}
	}
	if small && seed%3 == 0 && n >= 4 {
		// template: synced state, then a snapshot recovery (receiver format by seed), then more
		k1 := 1 + g.R.Intn(n/2)
		at := k1 + 1 + g.R.Intn(n-k1-1)
		s.Steps = []step{{Kind: "apply", N: k1}, {Kind: "sync"}, {Kind: "recover", At: at, SaveFmt: fsm.SnapshotRecoveryType(g.R.Intn(2))}}
		if n-at > 0 {
			s.Steps = append(s.Steps, step{Kind: "apply", N: n - at})
		}
		s.RecvFmt = fsm.SnapshotRecoveryType((seed / 3) % 2)
		didRecover = true
	}
	if g.R.Intn(2) == 0 {
		s.Steps = append(s.Steps, step{Kind: "sync"})
	}
	if g.R.Intn(6) == 0 && !didRecover && n > 2 {
		// a stopped recovery ends the scenario (the node is shutting down)
		s.Steps = append(s.Steps, step{Kind: "recover-stopped", At: n, SaveFmt: fsm.SnapshotRecoveryType(g.R.Intn(2))})
	}
	// pre-compute the snapshots on a plain (non-crashing) instance
	for i, st := range s.Steps {
		if st.Kind == "recover" || st.Kind == "recover-stopped" {
			a, err := fsmx.Fresh("t", st.SaveFmt)
			if err != nil {
				panic(err)
			}
			if _, err := a.Update(s.entries[:st.At]); err != nil {
				panic(err)
			}
			b, err := a.Snapshot()
			a.Close()
			if err != nil {
				panic(err)
			}
			s.snaps[i] = b
		}
	}
	return s
}

// stopReader closes stop after the first n bytes have been read.
type stopReader struct {
	r    io.Reader
	n    int
	stop chan struct{}
	once sync.Once
}

func (s *stopReader) Read(p []byte) (int, error) {
	if s.n <= 0 {
		s.once.Do(func() { close(s.stop) })
	}
	n, err := s.r.Read(p)
	s.n -= n
	return n, err
}

type outcome struct {
	ops       int
	crashOp   crashfs.Op
	promised  uint64 // highest index covered by a Sync() that returned before the crash
	fired     bool
	errBefore error // an operation failed before the crash fired
	errWhere  string
	fs        *crashfs.FS
	lastIdx   uint64 // index applied in memory when the scenario ended
	log       []crashfs.Op
}

// execute runs the scenario on a fresh crash FS with the trigger armed at k (0 = never).
func execute(s *scenario, k int) *outcome {
	fs := crashfs.New(fsmx.BaseDir)
	fs.CrashAt(k)
	if s.Big && s.Seed%4 == 1 {
		// a slow device for table files: background flushes take a few milliseconds longer, the
		// apply path (which does not touch the file system) runs ahead of them
		fs.SetDelay(func(op crashfs.Op) {
			if op.Kind == "create" && op.Class == "sst" {
				time.Sleep(4 * time.Millisecond)
			}
		})
	}
	o := &outcome{fs: fs}
	fail := func(where string, err error) *outcome {
		if !fs.Crashed() {
			o.errBefore, o.errWhere = err, where
		}
		o.ops, o.fired, o.crashOp, o.log = fs.Ops(), fs.Crashed(), fs.CrashOp(), fs.Log()
		return o
	}
	fs.SetPhase("first-open")
	t := fsmx.New(fs, "t", 10001, 1, s.RecvFmt, nil)
	if _, err := t.SM.Open(nil); err != nil {
		return fail("first open", err)
	}
	pos := 0
	var cur uint64
	closed := false
	opsAtLastSync := fs.Ops()
	for i, st := range s.Steps {
		switch st.Kind {
		case "apply":
			fs.SetPhase("apply")
			if _, err := t.Update(s.entries[pos : pos+st.N]); err != nil {
				return fail("apply", err)
			}
			pos += st.N
			cur = s.entries[pos-1].Index
		case "idle":
			if !fs.Crashed() {
				for stable, last, i := 0, fs.Ops(), 0; stable < 3 && i < 150; i++ {
					time.Sleep(12 * time.Millisecond)
					if n := fs.Ops(); n == last {
						stable++
					} else {
						stable, last = 0, n
					}
				}
			}
		case "sync-if-background-flush-ran":
			// (decided from the operation counter: the apply path itself performs no file-system
			// operation, so operations since the last sync mean the engine flushed on its own)
			if fs.Ops() == opsAtLastSync {
				continue
			}
			fallthrough
		case "sync":
			fs.SetPhase("sync")
			err := t.SM.Sync()
			if err != nil {
				return fail("sync", err)
			}
			if !fs.Crashed() {
				o.promised = cur
			}
			opsAtLastSync = fs.Ops()
		case "reopen":
			fs.SetPhase("close")
			if err := t.Close(); err != nil {
				return fail("close", err)
			}
			fs.SetPhase("reopen")
			nt, idx, err := t.Reopen()
			if err != nil {
				return fail("reopen", err)
			}
			if !fs.Crashed() && idx != cur {
				return fail("reopen", fmt.Errorf("clean reopen reports index %d, applied %d", idx, cur))
			}
			t = nt
		case "recover":
			fs.SetPhase("recover")
			if err := t.Recover(s.snaps[i]); err != nil {
				return fail("recover", err)
			}
			pos = st.At
			cur = s.entries[pos-1].Index
		case "recover-stopped":
			fs.SetPhase("recover-stopped")
			stop := make(chan struct{})
			sr := &stopReader{r: bytes.NewReader(s.snaps[i]), n: 8 + (len(s.snaps[i])-8)/3, stop: stop}
			err := t.SM.RecoverFromSnapshot(sr, stop)
			switch {
			case err == nil:
				pos = st.At
				cur = s.entries[pos-1].Index
			case errors.Is(err, sm.ErrSnapshotStopped):
			default:
				return fail("recover-stopped", err)
			}
		}
	}
	if !closed {
		fs.SetPhase("close")
		if err := t.Close(); err != nil {
			return fail("final close", err)
		}
	}
	o.lastIdx = cur
	o.ops, o.fired, o.crashOp, o.log = fs.Ops(), fs.Crashed(), fs.CrashOp(), fs.Log()
	return o
}

type verdict struct {
	sig, what string
	idx       uint64
	lost      bool // something not durable was lost (recovered index < index in memory)
}

// recoverAndJudge restarts on the durable state, judges it, replays the rest (optionally with a
// second crash during the replay) and judges the final state.
func recoverAndJudge(s *scenario, o *outcome, second int) (v verdict) {
	fs := o.fs
	fs.Restart()
	fs.SetPhase("recovery-open")
	if second > 0 {
		fs.Rearm(second)
	}
	t := fsmx.New(fs, "t", 10001, 1, s.RecvFmt, nil)
	idx, err := t.SM.Open(nil)
	if err != nil {
		if second > 0 && fs.Crashed() {
			// the second crash hit the recovery itself; judged by the next round
		}
		sig := "reopen-fails-after-crash"
		if strings.Contains(err.Error(), "does not exist") || strings.Contains(err.Error(), "not exist") {
			sig = "reopen-fails-after-crash:db-directory-entry-not-durable"
		}
		return verdict{sig: sig, what: fmt.Sprintf("Open after crash fails: %v", err)}
	}
	v.idx = idx
	v.lost = idx < o.lastIdx
	if idx < o.promised {
		sig := "synced-state-lost-after-crash"
		if idx == 0 {
			sig = "synced-state-lost-after-crash:reopened-empty"
		}
		t.Close()
		return verdict{sig: sig, what: fmt.Sprintf("reopened at index %d although Sync() had completed at index %d", idx, o.promised), idx: idx}
	}
	exp, ok := s.states[idx]
	if !ok {
		t.Close()
		return verdict{sig: "recovered-index-unknown", what: fmt.Sprintf("reopened at index %d which is not the index of any log entry", idx), idx: idx}
	}
	d, err := t.Dump()
	if err != nil {
		t.Close()
		return verdict{sig: "dump-error-after-crash", what: err.Error(), idx: idx}
	}
	if d.Applied != idx {
		t.Close()
		return verdict{sig: "index-lookup-disagrees-with-open", what: fmt.Sprintf("Open reported %d, index lookup %d", idx, d.Applied), idx: idx}
	}
	if why := fsmx.Diff(d, exp); why != "" {
		t.Close()
		return verdict{sig: "state-is-not-the-log-prefix-at-recovered-index", what: fmt.Sprintf("reopened at index %d but %s", idx, why), idx: idx}
	}
	// replay the rest, one apply call per 1-3 entries
	fs.SetPhase("replay")
	var rest []sm.Entry
	for _, e := range s.entries {
		if e.Index > idx {
			rest = append(rest, e)
		}
	}
	for p := 0; p < len(rest); {
		c := 1 + (p+int(s.Seed))%3
		if c > len(rest)-p {
			c = len(rest) - p
		}
		outs, err := t.Update(rest[p : p+c])
		if err != nil {
			t.Close()
			return verdict{sig: "replay-error-after-crash", what: err.Error(), idx: idx}
		}
		for j, e := range rest[p : p+c] {
			exp := s.results[e.Index]
			if outs[j].Value != exp.Value {
				t.Close()
				return verdict{sig: "replayed-entry-result", what: fmt.Sprintf("entry %d replayed after crash: value %d, model %d", e.Index, outs[j].Value, exp.Value), idx: idx}
			}
			var got []*pb.ResponseOp
			if outs[j].Result != nil {
				got = outs[j].Result.Responses
			}
			if mm := judge.Responses(exp.Responses, got, exp.IsTxn); mm != nil {
				t.Close()
				return verdict{sig: "replayed-entry-result", what: fmt.Sprintf("entry %d replayed after crash: %s", e.Index, mm.Why), idx: idx}
			}
		}
		p += c
		if p%2 == 0 {
			_ = t.SM.Sync()
		}
	}
	if second > 0 && fs.Crashed() {
		// second crash happened during recovery/replay: restart once more and judge again
		_ = t.Close()
		o2 := &outcome{fs: fs, lastIdx: s.order[len(s.order)-1], promised: 0}
		v2 := recoverAndJudge(s, o2, 0)
		v2.lost = true
		return v2
	}
	d, err = t.Dump()
	if err != nil {
		t.Close()
		return verdict{sig: "dump-error-after-replay", what: err.Error(), idx: idx}
	}
	final := s.states[s.order[len(s.order)-1]]
	if why := fsmx.Diff(d, final); why != "" {
		t.Close()
		return verdict{sig: "state-after-replay-differs-from-no-crash-run", what: why, idx: idx}
	}
	_ = t.Close()
	return v
}

func main() {
	debug.SetGCPercent(40)
	r := ev.Start("C04", "fault_enumeration")
	r.Rule("seeded scenarios (first open, apply batches incl. transactions and leader-indexed entries, Sync, close/reopen, snapshot recovery in all 4 format pairs into a non-empty table, stopped recovery); " +
		"each is run crash-free to count its N mutating FS operations, then with a crash before operation k for every k in 1..N (quick: every k for the small scenarios, stratified sample for the others), plus second crashes during recovery/replay. " +
		"Non-trivial: a crash case in which not-yet-durable state existed (recovered index < index applied in memory) or whose crash point lies in first-open / recover / reopen; distinct by (scenario, k)")
	r.Assume("fault model of the property: unsynced file data and unsynced directory entries are lost, everything synced survives (pebble strict MemFS); partial persistence of unsynced data / torn writes are not explored",
		"the operator-provided base directory is created and synced beforehand", "only Sync() counts as a durability promise (RecoverFromSnapshot/Close completing is recorded, not required to be durable)")
	if r.Replay != "" {
		var w witness
		if _, err := r.ReadReplay(&w); err != nil {
			fmt.Fprintln(os.Stderr, "replay:", err)
			os.Exit(2)
		}
		s := buildScenarioX(w.Scenario.Seed, false, w.Scenario.Big)
		if len(s.Steps) != len(w.Scenario.Steps) {
			s = buildScenarioX(w.Scenario.Seed, true, w.Scenario.Big)
		}
		// operation numbering varies slightly between runs (background flushes): try the recorded k and its neighbours
		for d := -3; d <= 3; d++ {
			if k := w.CrashAt + d; k > 0 {
				runCrash(r, s, k, w.Second)
			}
		}
		r.Finish()
	}
	type job struct {
		s      *scenario
		k      int
		second int
	}
	var jobs []job
	nSmall, nBig := r.Pick(14, 150), r.Pick(8, 250)
	perBig := r.Pick(60, 150)
	nHuge := r.Pick(4, 48)
	for i := 0; i < nSmall+nBig+nHuge; i++ {
		small := i < nSmall
		s := buildScenarioX(r.Seed*1_000_003+int64(i), small, i >= nSmall+nBig)
		if s.Big {
			r.Count("scenarios_with_big_values(memtable rotation inside apply calls)", 1)
		}
		o := execute(s, 0)
		if o.errBefore != nil {
			r.Violation("crash-free-run-fails", fmt.Sprintf("%s: %v", o.errWhere, o.errBefore), witness{Scenario: *s})
			continue
		}
		v := recoverAndJudge(s, o, 0)
		if v.sig != "" {
			r.Violation("crash-free:"+v.sig, v.what, witness{Scenario: *s, Log: renderLog(s)})
			continue
		}
		r.Count("scenarios", 1)
		r.Count("fs_ops_in_crash_free_runs", int64(o.ops))
		for _, st := range s.Steps {
			r.Count("steps_"+st.Kind, 1)
		}
		g := gen.New(s.Seed ^ 0x77)
		if small || s.Big {
			for k := 1; k <= o.ops+2; k++ {
				jobs = append(jobs, job{s, k, 0})
			}
		} else {
			// stratified: one k per distinct (kind,class,phase) site, then random ones
			seen := map[string]bool{}
			for _, op := range o.log {
				key := op.Kind + "|" + op.Class + "|" + op.Phase
				if !seen[key] {
					seen[key] = true
					jobs = append(jobs, job{s, op.N, 0})
				}
			}
			for j := 0; j < perBig; j++ {
				jobs = append(jobs, job{s, 1 + g.R.Intn(o.ops), 0})
			}
		}
		for j, n := 0, r.Pick(10, 40); j < n; j++ {
			jobs = append(jobs, job{s, 1 + g.R.Intn(o.ops), 1 + g.R.Intn(60)})
		}
	}
	var wg sync.WaitGroup
	ch := make(chan job)
	// crash runs of the big-value scenarios hold tens of MiB each (values, the strict file system
	// keeps synced and unsynced copies): at most 4 of them at a time, and the heap is trimmed
	// as they end
	bigSem := make(chan struct{}, 4)
	var bigDone atomic.Int64
	for w := 0; w < 10; w++ {
		wg.Add(1)
		go func() {
			defer wg.Done()
			for j := range ch {
				if j.s.Big {
					bigSem <- struct{}{}
				}
				runCrash(r, j.s, j.k, j.second)
				if j.s.Big {
					<-bigSem
					if bigDone.Add(1)%16 == 0 {
						debug.FreeOSMemory()
					}
				}
			}
		}()
	}
	for _, j := range jobs {
		ch <- j
	}
	close(ch)
	wg.Wait()
	r.FloorNontrivial(int64(r.Pick(800, 15000)))
	r.FloorCount("crash_runs", int64(r.Pick(2000, 40000)))
	r.FloorDistinct("crash_sites", int64(r.Pick(60, 100)))
	r.FloorCount("crash_runs_that_lost_unsynced_state", int64(r.Pick(500, 10000)))
	r.FloorCount("second_crashes", int64(r.Pick(100, 2000)))
	r.Finish()
}

func renderLog(s *scenario) []string {
	var out []string
	for _, e := range s.entries {
		out = append(out, fmt.Sprintf("%d:%s", e.Index, gen.Describe(fsmx.Decoded(e))))
	}
	return out
}

func runCrash(r *ev.Run, s *scenario, k, second int) {
	o := execute(s, k)
	mk := func(what string) witness {
		w := witness{Scenario: *s, Log: renderLog(s), CrashAt: k, CrashOp: o.crashOp.String(), Second: second, What: what}
		lo := k - 12
		if lo < 0 {
			lo = 0
		}
		for _, op := range o.log {
			if op.N > lo && op.N <= k {
				w.OpsTail = append(w.OpsTail, op.String())
			}
		}
		return w
	}
	if o.errBefore != nil {
		r.Violation("operation-fails-before-crash", fmt.Sprintf("%s: %v", o.errWhere, o.errBefore), mk(o.errBefore.Error()))
		return
	}
	v := recoverAndJudge(s, o, second)
	r.Count("crash_runs", 1)
	r.Eval(1)
	if second > 0 {
		r.Count("second_crashes", 1)
	}
	if o.fired {
		r.Distinct("crash_sites", o.crashOp.Kind+"|"+o.crashOp.Class+"|"+o.crashOp.Phase)
		r.Count("crash_in_phase_"+o.crashOp.Phase, 1)
	} else {
		r.Count("crash_point_beyond_last_op", 1)
	}
	if v.sig != "" {
		r.Violation(v.sig, fmt.Sprintf("%s [crash before %s]", v.what, o.crashOp), mk(v.what))
		return
	}
	if v.lost {
		r.Count("crash_runs_that_lost_unsynced_state", 1)
	}
	if o.promised > 0 && v.idx >= o.promised {
		r.Count("crash_runs_with_a_sync_promise_kept", 1)
	}
	ph := o.crashOp.Phase
	if v.lost || ph == "first-open" || ph == "recover" || ph == "reopen" || ph == "recover-stopped" {
		r.Nontrivial(fmt.Sprint(s.Seed, k, second))
	}
	if k%97 == 0 {
		steps := []string{}
		for _, st := range s.Steps {
			steps = append(steps, st.Kind)
		}
		r.Sample(map[string]any{"scenario_seed": s.Seed, "steps": strings.Join(steps, ","), "crash_before": o.crashOp.String(), "recovered_index": v.idx, "index_in_memory_at_end": o.lastIdx, "sync_promise": o.promised})
	}
}

var _ = sort.Ints
