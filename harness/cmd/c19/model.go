package main

import (
	"fmt"
	"math"
	"math/rand"
	"sort"
	"strings"

	"github.com/lni/dragonboat/v4"
)

// upd is one shard update as it reaches shardView.update: what a node knows about one shard
// (from its own NodeHost or from a peer's gossiped state).
type upd = dragonboat.ShardView

// ---------------------------------------------------------------------------------------------
// Raft-consistent histories. A shard history fixes, before any update is drawn, the ONE leader
// of every term (or none: a term in which nobody was ever announced) and the ONE membership of
// every config-change index. Every generated update picks a (term, cci) pair out of the history
// and either names the leader of that term or says "no leader"; hence two updates with the same
// term never name different leaders and two updates with the same cci carry equal replicas.
// ---------------------------------------------------------------------------------------------

type shardHist struct {
	ID      uint64
	Terms   []uint64                     // increasing, all >= 1
	Leader  map[uint64]uint64            // term -> leader id (absent: no leader announced in that term)
	CCIs    []uint64                     // increasing; 0 (if present) is the "pending" state: no replicas
	Members map[uint64]map[uint64]string // cci -> replicas
}

type multiset struct {
	Shards []shardHist
	U      []upd
}

var shardIDPool = []uint64{1, 2, 3, 1000, 10001, 10002, 1<<40 + 7, math.MaxUint64}

func genHist(rg *rand.Rand, id uint64, maxTerms, maxCCI int) shardHist {
	h := shardHist{ID: id, Leader: map[uint64]uint64{}, Members: map[uint64]map[uint64]string{}}
	nt := 1 + rg.Intn(maxTerms)
	t := uint64(rg.Intn(3))
	for i := 0; i < nt; i++ {
		t += 1 + uint64(rg.Intn(3))
		h.Terms = append(h.Terms, t)
		if rg.Intn(5) != 0 {
			h.Leader[t] = 1 + uint64(rg.Intn(5))
		}
	}
	nc := 1 + rg.Intn(maxCCI)
	c := uint64(0)
	for i := 0; i < nc; i++ {
		if i == 0 && rg.Intn(3) == 0 {
			h.CCIs = append(h.CCIs, 0)
			h.Members[0] = nil
			continue
		}
		c += 1 + uint64(rg.Intn(4))
		h.CCIs = append(h.CCIs, c)
		m := map[uint64]string{}
		for n := uint64(1); n <= 5; n++ {
			if rg.Intn(2) == 0 {
				m[n] = fmt.Sprintf("10.0.%d.%d:5012", c%200, n)
			}
		}
		if len(m) == 0 {
			m[1] = fmt.Sprintf("10.0.%d.1:5012", c%200)
		}
		h.Members[c] = m
	}
	return h
}

func cloneReplicas(m map[uint64]string) map[uint64]string {
	if m == nil {
		return nil
	}
	o := make(map[uint64]string, len(m))
	for k, v := range m {
		o[k] = v
	}
	return o
}

// draw makes one update out of the history; named: name the term's leader when there is one.
func (h *shardHist) draw(term, cci uint64, named bool) upd {
	u := upd{ShardID: h.ID, ConfigChangeIndex: cci, Replicas: cloneReplicas(h.Members[cci]), Term: term}
	if named {
		u.LeaderID = h.Leader[term]
	}
	return u
}

// genMultiset draws n updates (n >= 1) over 1-3 shards.
func genMultiset(rg *rand.Rand, n int) multiset {
	ns := 1
	switch k := rg.Intn(10); {
	case k >= 8:
		ns = 3
	case k >= 5:
		ns = 2
	}
	if ns > n {
		ns = n
	}
	var ms multiset
	perm := rg.Perm(len(shardIDPool))
	for i := 0; i < ns; i++ {
		ms.Shards = append(ms.Shards, genHist(rg, shardIDPool[perm[i]], 4, 3))
	}
	for len(ms.U) < n {
		h := &ms.Shards[rg.Intn(ns)]
		if len(ms.U) < ns {
			h = &ms.Shards[len(ms.U)] // every shard gets at least one update
		}
		left := n - len(ms.U)
		switch k := rg.Intn(10); {
		case k < 2 && left >= 1:
			// a no-leader update that carries the highest term of the shard
			ms.U = append(ms.U, h.draw(h.Terms[len(h.Terms)-1], h.CCIs[rg.Intn(len(h.CCIs))], false))
		case k < 4 && len(ms.U) > 0:
			// duplicate of an earlier update (equal value, own map)
			d := ms.U[rg.Intn(len(ms.U))]
			d.Replicas = cloneReplicas(d.Replicas)
			ms.U = append(ms.U, d)
		default:
			ms.U = append(ms.U, h.draw(h.Terms[rg.Intn(len(h.Terms))], h.CCIs[rg.Intn(len(h.CCIs))], rg.Intn(3) != 0))
		}
	}
	rg.Shuffle(len(ms.U), func(i, j int) { ms.U[i], ms.U[j] = ms.U[j], ms.U[i] })
	return ms
}

// ---------------------------------------------------------------------------------------------
// Reference: the join the statement names.
// ---------------------------------------------------------------------------------------------

// sv is the reference value of one shard: leader (id, term) of the highest-term update that
// named a leader, replicas of the highest config-change index.
type sv struct {
	Touched  bool
	Leader   uint64
	Term     uint64
	CCI      uint64
	Replicas map[uint64]string
}

func (s *sv) add(u upd) {
	s.Touched = true
	if u.LeaderID != 0 && (s.Leader == 0 || u.Term > s.Term) {
		s.Leader, s.Term = u.LeaderID, u.Term
	}
	if u.ConfigChangeIndex > s.CCI {
		s.CCI, s.Replicas = u.ConfigChangeIndex, u.Replicas
	}
}

func (s *sv) merge(o sv) {
	if !o.Touched {
		return
	}
	s.add(upd{LeaderID: o.Leader, Term: o.Term, ConfigChangeIndex: o.CCI, Replicas: o.Replicas})
}

// joinSorted computes the join in a second, independent way (sort, then pick), used for the
// final comparison so that the incremental tracker and the final oracle do not share code.
func joinSorted(us []upd) map[uint64]sv {
	out := map[uint64]sv{}
	byShard := map[uint64][]upd{}
	for _, u := range us {
		byShard[u.ShardID] = append(byShard[u.ShardID], u)
	}
	for id, l := range byShard {
		s := sv{Touched: true}
		named := make([]upd, 0, len(l))
		for _, u := range l {
			if u.LeaderID != 0 {
				named = append(named, u)
			}
		}
		sort.SliceStable(named, func(i, j int) bool { return named[i].Term > named[j].Term })
		if len(named) > 0 {
			s.Leader, s.Term = named[0].LeaderID, named[0].Term
		}
		cfg := append([]upd{}, l...)
		sort.SliceStable(cfg, func(i, j int) bool { return cfg[i].ConfigChangeIndex > cfg[j].ConfigChangeIndex })
		if cfg[0].ConfigChangeIndex > 0 {
			s.CCI, s.Replicas = cfg[0].ConfigChangeIndex, cfg[0].Replicas
		}
		out[id] = s
	}
	return out
}

func sameReplicas(a, b map[uint64]string) bool {
	if len(a) != len(b) {
		return false
	}
	for k, v := range a {
		if w, ok := b[k]; !ok || w != v {
			return false
		}
	}
	return true
}

// diff compares what the view reports for shard id with the reference; "" when equal, else the
// name of the first differing part.
func diff(id uint64, got upd, want sv) string {
	if !want.Touched {
		if got.ShardID != 0 || got.LeaderID != 0 || got.Term != 0 || got.ConfigChangeIndex != 0 || len(got.Replicas) != 0 {
			return "phantom-shard"
		}
		return ""
	}
	switch {
	case got.ShardID != id:
		return "shard-id"
	case got.LeaderID != want.Leader || (want.Leader != 0 && got.Term != want.Term):
		// while no update has named a leader the statement says nothing about the term a view
		// may remember; only "no leader" is required then
		return "leader"
	case got.ConfigChangeIndex != want.CCI:
		return "config-index"
	case !sameReplicas(got.Replicas, want.Replicas):
		return "replicas"
	}
	return ""
}

// ---------------------------------------------------------------------------------------------
// Rendering
// ---------------------------------------------------------------------------------------------

func fmtReplicas(m map[uint64]string) string {
	ks := make([]uint64, 0, len(m))
	for k := range m {
		ks = append(ks, k)
	}
	sort.Slice(ks, func(i, j int) bool { return ks[i] < ks[j] })
	var b strings.Builder
	b.WriteByte('[')
	for i, k := range ks {
		if i > 0 {
			b.WriteByte(' ')
		}
		fmt.Fprintf(&b, "%d=%s", k, m[k])
	}
	b.WriteByte(']')
	return b.String()
}

func fmtUpd(u upd) string {
	l := "none"
	if u.LeaderID != 0 {
		l = fmt.Sprint(u.LeaderID)
	}
	return fmt.Sprintf("{shard=%d term=%d leader=%s cci=%d replicas=%s}", u.ShardID, u.Term, l, u.ConfigChangeIndex, fmtReplicas(u.Replicas))
}

func fmtUpds(us []upd) []string {
	o := make([]string, len(us))
	for i, u := range us {
		o[i] = fmtUpd(u)
	}
	return o
}

func fmtSV(id uint64, s sv) string {
	if !s.Touched {
		return fmt.Sprintf("{shard=%d absent}", id)
	}
	return fmtUpd(upd{ShardID: id, Term: s.Term, LeaderID: s.Leader, ConfigChangeIndex: s.CCI, Replicas: s.Replicas})
}

// multisetKey is order-insensitive: the sorted renderings.
func multisetKey(us []upd) string {
	s := fmtUpds(us)
	sort.Strings(s)
	return strings.Join(s, "|")
}

// canonView renders a Copy() result independent of its (shuffled) order.
func canonView(l []upd) string {
	s := fmtUpds(l)
	sort.Strings(s)
	return strings.Join(s, " ")
}

// nontrivial: some shard has >= 2 distinct terms, an update naming a leader, and a no-leader
// update carrying that shard's highest term; and the multiset contains a duplicate.
func nontrivial(us []upd) bool {
	maxTerm := map[uint64]uint64{}
	terms := map[[2]uint64]bool{}
	named := map[uint64]bool{}
	for _, u := range us {
		if u.Term > maxTerm[u.ShardID] {
			maxTerm[u.ShardID] = u.Term
		}
		terms[[2]uint64{u.ShardID, u.Term}] = true
		if u.LeaderID != 0 {
			named[u.ShardID] = true
		}
	}
	perShardTerms := map[uint64]int{}
	for k := range terms {
		perShardTerms[k[0]]++
	}
	threat := false
	seen := map[string]bool{}
	dup := false
	for _, u := range us {
		if u.LeaderID == 0 && u.Term == maxTerm[u.ShardID] && perShardTerms[u.ShardID] >= 2 && named[u.ShardID] {
			threat = true
		}
		k := fmtUpd(u)
		if seen[k] {
			dup = true
		}
		seen[k] = true
	}
	return threat && dup
}
