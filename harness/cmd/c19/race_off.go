//go:build !race

package main

const raceOn = false
