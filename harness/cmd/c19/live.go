package main

import (
	"bytes"
	"context"
	"fmt"
	"math/rand"
	"os"
	"sync"
	"sync/atomic"
	"time"

	pb "github.com/jamf/regatta/regattapb"
	"github.com/jamf/regatta/storage/table"
	"github.com/lni/dragonboat/v4"

	"verifharness/internal/cluster"
	"verifharness/internal/ev"
)

// ---------------------------------------------------------------------------------------------
// Layer 2: a real 3-node cluster, leader transfers of the table shard (and of the metadata
// shard), every ResponseHeader fed to a monitor.
//
// Monitor discipline: every observer is ONE goroutine issuing its calls one after another, and
// the monitor state is keyed by (observer, node, shard). Two calls of one observer are ordered
// in real time, getHeader reads the view under its lock, hence "never regresses" may be judged
// on the order in which one observer sees its answers. Nothing is compared across observers
// except set-like facts (at most one leader per term), which do not depend on order.
// ---------------------------------------------------------------------------------------------

type liveObs struct {
	N        int64  `json:"n"`
	Observer string `json:"observer"`
	Node     uint64 `json:"node"`
	Shard    uint64 `json:"shard"`
	Term     uint64 `json:"term"`
	Leader   uint64 `json:"leader"`
	Src      string `json:"src"` // header:<call> | view | raft (dragonboat GetLeaderID, reference only)
}

type liveFinding struct {
	Sig  string
	What string
	At   liveObs
	Prev liveObs
}

// liveJudge is the deterministic oracle over a sequence of observations; it is used online and
// by --replay on the recorded history.
type liveJudge struct {
	last     map[string]liveObs
	byTerm   map[[2]uint64]liveObs // (shard, term) -> first observation naming a leader (headers, views)
	raftTerm map[[2]uint64]liveObs // (shard, term) -> leader according to dragonboat
}

func newLiveJudge() *liveJudge {
	return &liveJudge{last: map[string]liveObs{}, byTerm: map[[2]uint64]liveObs{}, raftTerm: map[[2]uint64]liveObs{}}
}

// step returns the findings of one observation and whether it differs from the observer's last.
func (j *liveJudge) step(o liveObs) (fs []liveFinding, changed bool) {
	tk := [2]uint64{o.Shard, o.Term}
	if o.Src == "raft" {
		if o.Leader != 0 {
			if p, ok := j.raftTerm[tk]; !ok {
				j.raftTerm[tk] = o
				changed = true
				if q, ok := j.byTerm[tk]; ok && q.Leader != o.Leader {
					fs = append(fs, liveFinding{"live-header-leader-differs-from-raft-leader-of-that-term",
						fmt.Sprintf("shard %d term %d: node %d reported leader %d, Raft's leader of that term is %d", o.Shard, o.Term, q.Node, q.Leader, o.Leader), q, o})
				}
			} else if p.Leader != o.Leader {
				// two leaders in one term according to dragonboat itself: not regatta's business
				fs = append(fs, liveFinding{"!raft-inconsistent", fmt.Sprintf("dragonboat reports leaders %d and %d for shard %d term %d", p.Leader, o.Leader, o.Shard, o.Term), o, p})
			}
		}
		return fs, changed
	}
	key := fmt.Sprintf("%s|%d|%d", o.Observer, o.Node, o.Shard)
	p, seen := j.last[key]
	changed = !seen || p.Term != o.Term || p.Leader != o.Leader
	if seen {
		if o.Term < p.Term {
			sig := "live-header-term-regressed"
			if o.Src == "header:iterate-range" {
				sig += ":range-stream-message" // a later message of a still open range stream
			}
			fs = append(fs, liveFinding{sig, fmt.Sprintf("node %d shard %d: raft_term went from %d (leader %d, %s) to %d (leader %d, %s) for observer %s",
				o.Node, o.Shard, p.Term, p.Leader, p.Src, o.Term, o.Leader, o.Src, o.Observer), o, p})
		}
		if p.Leader != 0 && o.Leader == 0 {
			fs = append(fs, liveFinding{"live-header-leader-reset-to-none", fmt.Sprintf("node %d shard %d: raft_leader_id went from %d (term %d) back to 0 (term %d) for observer %s",
				o.Node, o.Shard, p.Leader, p.Term, o.Term, o.Observer), o, p})
		}
		if o.Term == p.Term && p.Leader != 0 && o.Leader != 0 && o.Leader != p.Leader {
			fs = append(fs, liveFinding{"live-header-two-leaders-in-one-term", fmt.Sprintf("node %d shard %d term %d: leader %d then leader %d", o.Node, o.Shard, o.Term, p.Leader, o.Leader), o, p})
		}
	}
	j.last[key] = o
	if changed && o.Leader != 0 {
		if q, ok := j.byTerm[tk]; !ok {
			j.byTerm[tk] = o
		} else if q.Leader != o.Leader {
			fs = append(fs, liveFinding{"live-header-two-leaders-in-one-term", fmt.Sprintf("shard %d term %d: node %d reports leader %d, node %d reports leader %d", o.Shard, o.Term, q.Node, q.Leader, o.Node, o.Leader), o, q})
		}
		if q, ok := j.raftTerm[tk]; ok && q.Leader != o.Leader {
			fs = append(fs, liveFinding{"live-header-leader-differs-from-raft-leader-of-that-term",
				fmt.Sprintf("shard %d term %d: node %d reports leader %d, Raft's leader of that term is %d", o.Shard, o.Term, o.Node, o.Leader, q.Leader), o, q})
		}
	}
	return fs, changed
}

type witnessLive struct {
	Layer    int       `json:"layer"`
	CaseSeed int64     `json:"case_seed"`
	Transfer int       `json:"transfers_per_episode"`
	Episodes int       `json:"episodes"`
	At       liveObs   `json:"at"`
	Prev     liveObs   `json:"previous"`
	History  []liveObs `json:"history"` // every CHANGE seen by every observer, in monitor order
}

type liveMon struct {
	r    *ev.Run
	seed int64
	k    int
	eps  int

	mu       sync.Mutex
	j        *liveJudge
	n        int64
	hist     []liveObs
	reported map[string]bool
	headers  int64
	views    int64
	changes  int64
	raftBad  bool
}

func (m *liveMon) feed(o liveObs) {
	m.mu.Lock()
	defer m.mu.Unlock()
	m.n++
	o.N = m.n
	switch {
	case o.Src == "view":
		m.views++
	case o.Src != "raft":
		m.headers++
	}
	fs, changed := m.j.step(o)
	if changed {
		if o.Src != "raft" {
			m.changes++
		}
		if len(m.hist) < 20000 {
			m.hist = append(m.hist, o)
		}
	}
	for _, f := range fs {
		if f.Sig == "!raft-inconsistent" {
			m.raftBad = true
			m.r.Note(f.What)
			continue
		}
		if m.reported[f.Sig] {
			continue
		}
		m.reported[f.Sig] = true
		m.r.Violation(f.Sig, f.What, witnessLive{Layer: 2, CaseSeed: m.seed, Transfer: m.k, Episodes: m.eps, At: f.At, Prev: f.Prev, History: append([]liveObs{}, m.hist...)})
	}
}

const metaShard = 1000

// convergenceBound is the watchdog of one settle phase (convergence normally takes a few ms).
const convergenceBound = 3 * time.Second

// healWait (C19_HEAL_WAIT, diagnostic only): how long to keep watching a view that did not
// converge within the bound.
var healWait = func() time.Duration { d, _ := time.ParseDuration(os.Getenv("C19_HEAL_WAIT")); return d }()

func runLive(r *ev.Run, seed int64, episodes, transfers int) {
	rg := rand.New(rand.NewSource(seed))
	o := cluster.Opts{Nodes: 3, RTT: 5, ElectionRTT: 10}
	if raceOn {
		o.RTT, o.ElectionRTT = 10, 20
	}
	// start-up trouble (ports, slow first election) is retried; it is never a verdict
	var c *cluster.Cluster
	var shard uint64
	for attempt := 0; ; attempt++ {
		var err error
		c, err = cluster.Start(o)
		if err == nil {
			var t table.Table
			if t, err = c.CreateTable("t"); err == nil {
				shard = t.ClusterID
				break
			}
			c.Close()
		}
		if attempt == 2 {
			r.Inconclusive("live: cluster start / create table: " + err.Error())
			return
		}
	}
	defer c.Close()
	// three 2 MiB values under their own prefix: a range over them is streamed in several
	// messages (a message is cut at 4 MiB), which the stream probes below rely on
	bigOK := true
	for i := 0; i < 3; i++ {
		ctx, cancel := context.WithTimeout(context.Background(), 20*time.Second)
		_, err := c.Nodes[0].Engine.Put(ctx, &pb.PutRequest{Table: []byte("t"), Key: []byte(fmt.Sprintf("zbig%d", i)), Value: bytes.Repeat([]byte{byte('a' + i)}, 2<<20)})
		cancel()
		if err != nil {
			bigOK = false
			r.Note("live: could not store the 2 MiB values for the stream probes: " + err.Error())
			break
		}
	}
	m := &liveMon{r: r, seed: seed, k: transfers, eps: episodes, j: newLiveJudge(), reported: map[string]bool{}}

	var stop atomic.Bool
	var wg sync.WaitGroup
	var okCalls, failedCalls atomic.Int64
	hdr := func(obs, call string, node uint64, h *pb.ResponseHeader) {
		if h == nil {
			return
		}
		m.feed(liveObs{Observer: obs, Node: node, Shard: h.ShardId, Term: h.RaftTerm, Leader: h.RaftLeaderId, Src: "header:" + call})
	}
	for _, n := range c.Nodes {
		n := n
		wg.Add(2)
		go func() { // poller: local reads + the view itself (both shards)
			defer wg.Done()
			obs := fmt.Sprintf("poll-n%d", n.ID)
			for i := 0; !stop.Load(); i++ {
				ctx, cancel := context.WithTimeout(context.Background(), 2*time.Second)
				resp, err := n.Engine.Range(ctx, &pb.RangeRequest{Table: []byte("t"), Key: []byte(fmt.Sprintf("k%d", i%8))})
				cancel()
				if err == nil {
					hdr(obs, "range", n.ID, resp.Header)
					okCalls.Add(1)
				} else {
					failedCalls.Add(1)
				}
				for _, s := range []uint64{shard, metaShard} {
					si := n.Engine.Cluster.ShardInfo(s)
					if si.ShardID != 0 {
						m.feed(liveObs{Observer: obs + "/view", Node: n.ID, Shard: s, Term: si.Term, Leader: si.LeaderID, Src: "view"})
					}
				}
				time.Sleep(300 * time.Microsecond)
			}
		}()
		go func() { // client: writes and linearizable reads through this node
			defer wg.Done()
			obs := fmt.Sprintf("rw-n%d", n.ID)
			for i := 0; !stop.Load(); i++ {
				ctx, cancel := context.WithTimeout(context.Background(), 2*time.Second)
				key := []byte(fmt.Sprintf("k%d", i%8))
				switch i % 4 {
				case 0, 1:
					resp, err := n.Engine.Put(ctx, &pb.PutRequest{Table: []byte("t"), Key: key, Value: []byte(fmt.Sprintf("v%d-%d", n.ID, i))})
					if err == nil {
						hdr(obs, "put", n.ID, resp.Header)
						okCalls.Add(1)
					} else {
						failedCalls.Add(1)
					}
				case 2:
					resp, err := n.Engine.Range(ctx, &pb.RangeRequest{Table: []byte("t"), Key: key, Linearizable: true})
					if err == nil {
						hdr(obs, "range-linearizable", n.ID, resp.Header)
						okCalls.Add(1)
					} else {
						failedCalls.Add(1)
					}
				default:
					resp, err := n.Engine.Delete(ctx, &pb.DeleteRangeRequest{Table: []byte("t"), Key: key})
					if err == nil {
						hdr(obs, "delete", n.ID, resp.Header)
						okCalls.Add(1)
					} else {
						failedCalls.Add(1)
					}
				}
				cancel()
				time.Sleep(time.Millisecond)
			}
		}()
	}
	stopAll := func() { stop.Store(true); wg.Wait() }

	// raft(): dragonboat's own answer on every node, recorded as reference
	raft := func(s uint64) (leader, term uint64, agreed bool) {
		agreed = true
		for i, n := range c.Nodes {
			l, tm, valid, err := n.Engine.GetLeaderID(s)
			if err != nil || !valid {
				agreed = false
				continue
			}
			m.feed(liveObs{Observer: "raft", Node: n.ID, Shard: s, Term: tm, Leader: l, Src: "raft"})
			if i == 0 || leader == 0 {
				leader, term = l, tm
			}
			if l != leader || tm != term {
				agreed = false
			}
		}
		return
	}
	// awaitConvergence: every node's headers name Raft's current (term, leader) of the table
	// shard. A time-out here is not a verdict (watchdog).
	awaitConvergence := func(bound time.Duration, tag string) (bool, string) {
		var lastState string
		for dl := time.Now().Add(bound); time.Now().Before(dl); time.Sleep(5 * time.Millisecond) {
			l, tm, ok := raft(shard)
			if !ok {
				lastState = "raft nodes do not agree on a leader yet"
				continue
			}
			all := true
			lastState = fmt.Sprintf("raft: leader %d term %d;", l, tm)
			for _, n := range c.Nodes {
				ctx, cancel := context.WithTimeout(context.Background(), 2*time.Second)
				resp, err := n.Engine.Range(ctx, &pb.RangeRequest{Table: []byte("t"), Key: []byte("k0")})
				cancel()
				if err != nil {
					all = false
					lastState += fmt.Sprintf(" node %d: %v;", n.ID, err)
					continue
				}
				hdr(fmt.Sprintf("%s-n%d", tag, n.ID), "range", n.ID, resp.Header)
				lastState += fmt.Sprintf(" node %d header: leader %d term %d;", n.ID, resp.Header.RaftLeaderId, resp.Header.RaftTerm)
				if resp.Header.RaftLeaderId != l || resp.Header.RaftTerm != tm {
					all = false
				}
			}
			if !all {
				continue
			}
			if l2, tm2, ok2 := raft(shard); ok2 && l2 == l && tm2 == tm {
				return true, lastState
			}
		}
		// what the node's own NodeHost would tell the view if it were asked now
		for _, n := range c.Nodes {
			if nhi := n.Engine.NodeHost.GetNodeHostInfo(dragonboat.DefaultNodeHostInfoOption); nhi != nil {
				for _, si := range nhi.ShardInfoList {
					if si.ShardID == shard {
						lastState += fmt.Sprintf(" node %d NodeHostInfo: leader %d term %d;", n.ID, si.LeaderID, si.Term)
					}
				}
			}
		}
		return false, lastState
	}

	// streamProbe: one observer reads a multi-message range stream from node n; after the first
	// message the table shard's leader is moved, the node's view is refreshed from its own
	// NodeHost (what Cluster.Notify / LocalState do) and the same observer gets a unary answer
	// from the node; then it consumes the rest of the stream. All answers of the node to this
	// one observer, in the order they were handed out, go to the monitor.
	streamProbe := func(ep int, n *cluster.Node) {
		obs := fmt.Sprintf("stream%d-n%d", ep, n.ID)
		for dl := time.Now().Add(5 * time.Second); time.Now().Before(dl); time.Sleep(5 * time.Millisecond) {
			if _, _, ok := raft(shard); ok {
				break
			}
		}
		n.Engine.Cluster.Notify()
		ctx, cancel := context.WithTimeout(context.Background(), 60*time.Second)
		defer cancel()
		seq, err := n.Engine.IterateRange(ctx, &pb.RangeRequest{Table: []byte("t"), Key: []byte("zbig"), RangeEnd: []byte("zbih")})
		if err != nil {
			r.Count("live_stream_probes_failed_to_open", 1)
			return
		}
		msgs, kvs := 0, 0
		var t1, t2 uint64
		seq(func(resp *pb.RangeResponse) bool {
			msgs++
			kvs += len(resp.Kvs)
			hdr(obs, "iterate-range", n.ID, resp.Header)
			if msgs != 1 {
				return true
			}
			t1 = resp.Header.RaftTerm
			// move the leader until Raft (all three nodes) is in a later term than message 1 reported
			for try := 0; try < 4; try++ {
				l, tm, ok := raft(shard)
				if ok && tm > t1 {
					break
				}
				if ok {
					_ = c.Nodes[l-1].Engine.NodeHost.RequestLeaderTransfer(shard, 1+l%3)
					r.Count("live_transfers_requested", 1)
				}
				for dl := time.Now().Add(2 * time.Second); time.Now().Before(dl); time.Sleep(2 * time.Millisecond) {
					if _, tm, ok := raft(shard); ok && tm > t1 {
						break
					}
				}
			}
			n.Engine.Cluster.Notify()
			uctx, ucancel := context.WithTimeout(context.Background(), 5*time.Second)
			u, err := n.Engine.Range(uctx, &pb.RangeRequest{Table: []byte("t"), Key: []byte("k0")})
			ucancel()
			if err == nil {
				hdr(obs, "range", n.ID, u.Header)
				t2 = u.Header.RaftTerm
			}
			return true
		})
		r.Count("live_stream_messages", int64(msgs))
		switch {
		case msgs < 2 || kvs != 3:
			r.Count("live_stream_probes_single_message_or_incomplete", 1)
		case t2 <= t1:
			r.Count("live_stream_probes_without_term_change", 1)
		default:
			r.Count("live_stream_probes_with_midstream_term_change", 1)
		}
	}

	done, notDone, converged, stale, refreshed := 0, 0, 0, 0, 0
	var lastState string
	for ep := 0; ep < episodes; ep++ {
		if bigOK {
			streamProbe(ep, c.Nodes[(uint64(ep)+uint64(seed))%uint64(len(c.Nodes))])
		}
		for k := 0; k < transfers; k++ {
			s := shard
			if k%4 == 3 && k != transfers-1 {
				s = metaShard
			}
			var leader uint64
			for dl := time.Now().Add(5 * time.Second); time.Now().Before(dl); time.Sleep(5 * time.Millisecond) {
				if l, _, ok := raft(s); ok {
					leader = l
					break
				}
			}
			if leader == 0 {
				notDone++
				continue
			}
			target := 1 + (leader+uint64(rg.Intn(2)))%3
			from := c.Nodes[leader-1]
			if rg.Intn(4) == 0 { // ask a follower: dragonboat forwards the request to the leader
				from = c.Nodes[target-1]
			}
			if err := from.Engine.NodeHost.RequestLeaderTransfer(s, target); err != nil {
				notDone++
				continue
			}
			r.Count("live_transfers_requested", 1)
			if rg.Intn(5) == 0 {
				continue // do not wait: the next transfer hits a shard in transition
			}
			reached := false
			for dl := time.Now().Add(time.Second); time.Now().Before(dl); time.Sleep(2 * time.Millisecond) {
				if l, _, ok := raft(s); ok && l == target {
					reached = true
					break
				}
			}
			if reached {
				done++
			} else {
				notDone++
			}
			if os.Getenv("C19_DEBUG") != "" {
				l, tm, ok := raft(s)
				fmt.Printf("debug: ep %d transfer %d shard %d leader %d -> target %d via node %d: reached=%v now leader %d term %d agreed=%v\n", ep, k, s, leader, target, from.ID, reached, l, tm, ok)
			}
			time.Sleep(time.Duration(rg.Intn(100)) * time.Millisecond)
		}
		ok, st := awaitConvergence(convergenceBound, fmt.Sprintf("settle%d", ep))
		lastState = st
		if ok {
			converged++
			continue
		}
		stale++
		r.Inconclusive(fmt.Sprintf("live (seed %d, episode %d): headers did not reach Raft's (term, leader) within %v after the last transfer: %s", seed, ep, convergenceBound, st))
		if healWait > 0 {
			t0 := time.Now()
			ok, st := awaitConvergence(healWait, fmt.Sprintf("heal%d", ep))
			r.Note(fmt.Sprintf("live diag: after further %v: converged=%v %s", time.Since(t0).Round(time.Millisecond), ok, st))
		}
		// Logical (clock-free) part: regatta refreshes a view by merging the node's own NodeHost
		// information into it (Cluster.Notify on Raft events, LocalState on every memberlist
		// push/pull). Do that refresh now on every node. While Raft's answer stays the same
		// before and after, every header read after the refresh returned must name exactly
		// Raft's (term, leader): the update naming the highest term has been delivered.
		verdict := ""
		for attempt := 0; attempt < 50 && verdict == ""; attempt++ {
			l, tm, ok := raft(shard)
			if !ok {
				time.Sleep(20 * time.Millisecond)
				continue
			}
			for _, n := range c.Nodes {
				n.Engine.Cluster.Notify()
			}
			type hv struct{ node, leader, term uint64 }
			var seen []hv
			complete := true
			for _, n := range c.Nodes {
				ctx, cancel := context.WithTimeout(context.Background(), 2*time.Second)
				resp, err := n.Engine.Range(ctx, &pb.RangeRequest{Table: []byte("t"), Key: []byte("k0")})
				cancel()
				if err != nil {
					complete = false
					break
				}
				hdr(fmt.Sprintf("refresh%d-n%d", ep, n.ID), "range", n.ID, resp.Header)
				seen = append(seen, hv{n.ID, resp.Header.RaftLeaderId, resp.Header.RaftTerm})
			}
			if l2, tm2, ok2 := raft(shard); !complete || !ok2 || l2 != l || tm2 != tm {
				continue // Raft moved meanwhile: nothing to conclude from this attempt
			}
			verdict = "settled"
			for _, h := range seen {
				if h.leader != l || h.term != tm {
					verdict = fmt.Sprintf("node %d answers leader %d term %d after its view was refreshed from its own NodeHost, Raft (all three nodes, before and after) says leader %d term %d", h.node, h.leader, h.term, l, tm)
				}
			}
		}
		switch verdict {
		case "settled":
			refreshed++
		case "":
			r.Inconclusive(fmt.Sprintf("live (seed %d, episode %d): Raft leadership kept moving during 50 refresh attempts", seed, ep))
		default:
			m.mu.Lock()
			h := append([]liveObs{}, m.hist...)
			m.mu.Unlock()
			r.Violation("live-view-keeps-older-leader-after-refresh", verdict, witnessLive{Layer: 2, CaseSeed: seed, Transfer: transfers, Episodes: episodes, History: h})
		}
	}
	r.Count("live_episodes_settled_after_explicit_refresh", int64(refreshed))
	r.Count("live_transfers_completed", int64(done))
	r.Count("live_transfers_not_confirmed", int64(notDone))
	r.Count("live_episodes_converged_unassisted", int64(converged))
	r.Count("live_episodes_settled", int64(converged+refreshed))
	r.Count("live_episodes_stale_beyond_bound", int64(stale))
	stopAll()
	m.mu.Lock()
	headers, views, changes, raftBad := m.headers, m.views, m.changes, m.raftBad
	hist := m.hist
	m.mu.Unlock()
	r.Count("live_headers_observed", headers)
	r.Count("live_view_reads", views)
	r.Count("live_leader_or_term_changes_seen", changes)
	r.Count("live_calls_failed_during_transitions", failedCalls.Load())
	terms := map[uint64]bool{}
	for _, h := range hist {
		if h.Shard == shard && h.Src != "raft" && h.Leader != 0 {
			terms[h.Term] = true
			r.Distinct("live_table_shard_terms_in_headers", fmt.Sprintf("%d/%d", seed, h.Term))
		}
	}
	if raftBad {
		r.Inconclusive("live: dragonboat itself reported two leaders for one term")
		return
	}
	r.Count("live_runs", 1)
	r.Eval(1)
	var tail []liveObs
	for _, h := range hist {
		if h.Shard == shard && h.Src != "raft" && h.Observer == "poll-n1" {
			tail = append(tail, h)
		}
	}
	if len(tail) > 12 {
		tail = tail[:12]
	}
	r.Sample(map[string]any{"layer": 2, "case_seed": seed, "episodes": episodes, "episodes_converged_unassisted": converged, "episodes_stale_beyond_bound_then_settled_by_refresh": refreshed, "transfers_completed": done, "headers_observed": headers, "view_reads": views,
		"distinct_terms_with_leader_in_headers": len(terms), "final": lastState, "node1_header_changes_first12": tail})
}

// replayLive re-judges the recorded history with the same oracle, then re-runs the scenario.
func replayLive(r *ev.Run, w witnessLive) {
	j := newLiveJudge()
	n := 0
	for _, o := range w.History {
		fs, _ := j.step(o)
		for _, f := range fs {
			if f.Sig == "!raft-inconsistent" {
				continue
			}
			n++
			r.Violation(f.Sig, "recorded history re-judged: "+f.What, witnessLive{Layer: 2, CaseSeed: w.CaseSeed, Transfer: w.Transfer, At: f.At, Prev: f.Prev})
		}
	}
	fmt.Printf("replay: recorded history of %d observations re-judged: %d finding(s)\n", len(w.History), n)
	for i := 0; i < 3 && r.Violations() == n; i++ {
		runLive(r, w.CaseSeed, w.Episodes, w.Transfer)
	}
	fmt.Printf("replay: live re-run reproduced: %v\n", r.Violations() > n)
}
