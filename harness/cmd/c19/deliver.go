package main

import (
	"fmt"
	"math/rand"
	"sync"
	"sync/atomic"

	"github.com/jamf/regatta/storage/cluster"
	"github.com/lni/dragonboat/v4"

	"verifharness/internal/ev"
)

// witness of a layer-1 violation; CaseSeed (+Family, N) regenerates the multiset and every
// delivery of it, so --replay re-executes the whole case and must fail again.
type witnessL1 struct {
	Layer    int      `json:"layer"`
	Family   string   `json:"family"` // "random" | "small-scope"
	CaseSeed int64    `json:"case_seed"`
	N        int      `json:"n_updates"`
	Seq      []int    `json:"small_scope_sequence,omitempty"`
	Multiset []string `json:"multiset"`
	Delivery string   `json:"delivery"`
	Steps    []string `json:"steps"`
	Shard    uint64   `json:"shard"`
	View     string   `json:"view,omitempty"`
	Got      string   `json:"got"`
	Want     string   `json:"want"`
	Before   string   `json:"before_step,omitempty"`
}

// global de-duplication of reports: the first few per signature get a witness, the rest are
// only counted (a broken merge fails on a large fraction of all deliveries).
var (
	sigMu    sync.Mutex
	sigCount = map[string]int{}
)

const maxReportsPerSignature = 3

type l1case struct {
	r        *ev.Run
	fam      string
	seed     int64
	seq      []int
	ms       multiset
	ids      []uint64
	want     map[uint64]sv
	canon    string // canonical final view of the first delivery of this multiset
	reported map[string]bool
	failed   bool

	deliveries, steps, exchanges, redelivered int64
}

func newCase(r *ev.Run, fam string, seed int64, ms multiset) *l1case {
	c := &l1case{r: r, fam: fam, seed: seed, ms: ms, want: joinSorted(ms.U), reported: map[string]bool{}}
	seen := map[uint64]bool{}
	for _, u := range ms.U {
		if !seen[u.ShardID] {
			seen[u.ShardID] = true
			c.ids = append(c.ids, u.ShardID)
		}
	}
	return c
}

func (c *l1case) violation(sig, what string, w witnessL1) {
	c.failed = true
	if c.reported[sig] {
		return
	}
	c.reported[sig] = true
	sigMu.Lock()
	sigCount[sig]++
	n := sigCount[sig]
	sigMu.Unlock()
	if n > maxReportsPerSignature {
		c.r.Count("violating_cases_not_printed", 1)
		return
	}
	w.Layer, w.Family, w.CaseSeed, w.N, w.Seq = 1, c.fam, c.seed, len(c.ms.U), c.seq
	w.Multiset = fmtUpds(c.ms.U)
	c.r.Violation(sig, what, w)
}

// ---------------------------------------------------------------------------------------------
// one view under observation
// ---------------------------------------------------------------------------------------------

type watched struct {
	name  string
	v     *cluster.VerifView
	know  map[uint64]*sv // join of everything that has flowed into this view
	prev  map[uint64]upd // last observation per shard
	slots []dragonboat.ShardInfo
	dirty map[uint64]bool // slot of that shard not merged into the view yet
}

func (c *l1case) newWatched(name string) *watched {
	w := &watched{name: name, know: map[uint64]*sv{}, prev: map[uint64]upd{}, dirty: map[uint64]bool{}}
	for _, id := range c.ids {
		w.know[id] = &sv{}
	}
	w.v = cluster.NewVerifView(func() cluster.Info { return cluster.Info{NodeID: 1, ShardInfoList: w.slots} })
	return w
}

// observe reads every shard of the case through shardInfo and judges the step.
func (c *l1case) observe(w *watched, path string, delivery string, steps func() []string) bool {
	for _, id := range c.ids {
		got := w.v.ShardInfo(id)
		p := w.prev[id]
		wit := func() witnessL1 {
			return witnessL1{Delivery: delivery, Steps: steps(), Shard: id, View: w.name, Got: fmtUpd(got), Want: fmtSV(id, *w.know[id]), Before: fmtUpd(p)}
		}
		switch {
		case got.Term < p.Term:
			c.violation("view-term-regressed:"+path, fmt.Sprintf("shard %d: (term, leader) moved from (%d, %d) to (%d, %d)", id, p.Term, p.LeaderID, got.Term, got.LeaderID), wit())
			return false
		case p.LeaderID != 0 && got.LeaderID == 0:
			c.violation("view-leader-replaced-by-noleader:"+path, fmt.Sprintf("shard %d: leader %d (term %d) replaced by 'no leader' (term %d)", id, p.LeaderID, p.Term, got.Term), wit())
			return false
		case got.ConfigChangeIndex < p.ConfigChangeIndex:
			c.violation("view-config-index-regressed:"+path, fmt.Sprintf("shard %d: config-change index moved from %d to %d", id, p.ConfigChangeIndex, got.ConfigChangeIndex), wit())
			return false
		}
		if d := diff(id, got, *w.know[id]); d != "" {
			c.violation("view-not-join:"+d+":"+path, fmt.Sprintf("shard %d after this prefix: view %s, join of the delivered updates %s", id, fmtUpd(got), fmtSV(id, *w.know[id])), wit())
			return false
		}
		w.prev[id] = got
	}
	return true
}

// final compares copy() with the join of the whole multiset and with the first delivery.
func (c *l1case) final(w *watched, path string, delivery string, steps func() []string) bool {
	l := w.v.Copy()
	if len(l) != len(c.want) {
		c.violation("final-view-shard-set:"+path, fmt.Sprintf("copy() lists %d shards, %d were updated", len(l), len(c.want)),
			witnessL1{Delivery: delivery, Steps: steps(), View: w.name, Got: canonView(l)})
		return false
	}
	for _, got := range l {
		want, ok := c.want[got.ShardID]
		if !ok {
			c.violation("final-view-shard-set:"+path, fmt.Sprintf("copy() lists shard %d which no update named", got.ShardID),
				witnessL1{Delivery: delivery, Steps: steps(), View: w.name, Shard: got.ShardID, Got: fmtUpd(got)})
			return false
		}
		if d := diff(got.ShardID, got, want); d != "" {
			c.violation("final-view-not-join:"+d+":"+path, fmt.Sprintf("shard %d: final view %s, join of the multiset %s", got.ShardID, fmtUpd(got), fmtSV(got.ShardID, want)),
				witnessL1{Delivery: delivery, Steps: steps(), View: w.name, Shard: got.ShardID, Got: fmtUpd(got), Want: fmtSV(got.ShardID, want)})
			return false
		}
		if d := diff(got.ShardID, w.v.ShardInfo(got.ShardID), want); d != "" {
			c.violation("shardinfo-differs-from-copy:"+path, fmt.Sprintf("shard %d: shardInfo and copy disagree", got.ShardID),
				witnessL1{Delivery: delivery, Steps: steps(), View: w.name, Shard: got.ShardID, Got: fmtUpd(w.v.ShardInfo(got.ShardID)), Want: fmtUpd(got)})
			return false
		}
	}
	cv := canonView(l)
	if c.canon == "" {
		c.canon = cv
	} else if cv != c.canon {
		c.violation("final-view-order-dependent:"+path, "two deliveries of the same multiset end in different views",
			witnessL1{Delivery: delivery, Steps: steps(), View: w.name, Got: cv, Want: c.canon})
		return false
	}
	return true
}

// ---------------------------------------------------------------------------------------------
// single-view deliveries: a list of groups, one update() call per group
// ---------------------------------------------------------------------------------------------

func (c *l1case) renderGroups(groups [][]int) []string {
	out := make([]string, len(groups))
	for i, g := range groups {
		s := "update("
		for j, k := range g {
			if j > 0 {
				s += ", "
			}
			s += fmt.Sprintf("#%d%s", k, fmtUpd(c.ms.U[k]))
		}
		out[i] = s + ")"
	}
	return out
}

func (c *l1case) deliverGroups(kind string, groups [][]int) {
	w := c.newWatched("A")
	c.deliveries++
	for gi, g := range groups {
		us := make([]upd, len(g))
		for j, k := range g {
			us[j] = c.ms.U[k]
			w.know[us[j].ShardID].add(us[j])
		}
		w.v.Update(us)
		c.steps++
		gi := gi
		if !c.observe(w, "update", kind, func() []string { return c.renderGroups(groups[:gi+1]) }) {
			return
		}
	}
	c.final(w, "update", kind, func() []string { return c.renderGroups(groups) })
}

func singletons(p []int) [][]int {
	g := make([][]int, len(p))
	for i, k := range p {
		g[i] = []int{k}
	}
	return g
}

// randGroups cuts the order into arbitrary groups and re-delivers updates already delivered
// (inside later groups or as groups of their own).
func (c *l1case) randGroups(rg *rand.Rand, p []int) [][]int {
	var groups [][]int
	for i := 0; i < len(p); {
		n := 1 + rg.Intn(len(p)-i)
		if rg.Intn(2) == 0 && n > 2 {
			n = 1 + rg.Intn(2)
		}
		g := append([]int{}, p[i:i+n]...)
		if i > 0 && rg.Intn(3) == 0 { // old update re-delivered inside a later call
			pos := rg.Intn(len(g) + 1)
			old := p[rg.Intn(i)]
			g = append(g[:pos], append([]int{old}, g[pos:]...)...)
			c.redelivered++
		}
		groups = append(groups, g)
		i += n
		if rg.Intn(4) == 0 { // a whole call made of re-deliveries
			k := 1 + rg.Intn(i)
			var d []int
			for j := 0; j < k; j++ {
				d = append(d, p[rg.Intn(i)])
			}
			groups = append(groups, d)
			c.redelivered += int64(k)
		}
	}
	return groups
}

func permutations(n int, f func(p []int) bool) {
	p := make([]int, n)
	for i := range p {
		p[i] = i
	}
	var rec func(k int) bool
	rec = func(k int) bool {
		if k == n {
			return f(p)
		}
		for i := k; i < n; i++ {
			p[k], p[i] = p[i], p[k]
			if !rec(k + 1) {
				return false
			}
			p[k], p[i] = p[i], p[k]
		}
		return true
	}
	rec(0)
}

// ---------------------------------------------------------------------------------------------
// gossip deliveries: k views, updates spread over them (direct update calls or node-local Raft
// information picked up by LocalState), state exchanged by LocalState -> JSON -> MergeRemoteState
// in random order, including delayed (stale) payloads.
// ---------------------------------------------------------------------------------------------

type gstep struct {
	Kind string // update | local | notify | xchg | capture | stale
	V, W int
	Idx  []int
	Buf  int
}

func (c *l1case) renderScript(s []gstep) []string {
	name := func(i int) string { return string(rune('A' + i)) }
	out := make([]string, len(s))
	for i, st := range s {
		switch st.Kind {
		case "update":
			out[i] = name(st.V) + "." + c.renderGroups([][]int{st.Idx})[0]
		case "local":
			out[i] = fmt.Sprintf("%s: node-local Raft info of shard := #%d%s", name(st.V), st.Idx[0], fmtUpd(c.ms.U[st.Idx[0]]))
		case "notify":
			out[i] = name(st.V) + ".update(node-local Raft info)   [what Cluster.Notify does]"
		case "xchg":
			out[i] = fmt.Sprintf("%s.MergeRemoteState(%s.LocalState())", name(st.W), name(st.V))
		case "capture":
			out[i] = fmt.Sprintf("payload%d := %s.LocalState()   [delivered later]", st.Buf, name(st.V))
		case "stale":
			out[i] = fmt.Sprintf("%s.MergeRemoteState(payload%d)   [delayed payload]", name(st.W), st.Buf)
		}
	}
	return out
}

func (c *l1case) genScript(rg *rand.Rand, k int, order []int) []gstep {
	var s []gstep
	captured := 0
	next := 0
	for next < len(order) {
		switch x := rg.Intn(100); {
		case x < 55:
			v := rg.Intn(k)
			if rg.Intn(2) == 0 {
				n := 1 + rg.Intn(2)
				if n > len(order)-next {
					n = len(order) - next
				}
				s = append(s, gstep{Kind: "update", V: v, Idx: append([]int{}, order[next:next+n]...)})
				next += n
			} else {
				s = append(s, gstep{Kind: "local", V: v, Idx: []int{order[next]}})
				next++
				if rg.Intn(2) == 0 {
					s = append(s, gstep{Kind: "notify", V: v})
				}
			}
			if rg.Intn(5) == 0 && next > 0 { // the same update also reaches another view
				s = append(s, gstep{Kind: "update", V: rg.Intn(k), Idx: []int{order[rg.Intn(next)]}})
				c.redelivered++
			}
		case x < 82:
			v := rg.Intn(k)
			w := (v + 1 + rg.Intn(k-1)) % k
			s = append(s, gstep{Kind: "xchg", V: v, W: w})
		case x < 90:
			s = append(s, gstep{Kind: "capture", V: rg.Intn(k), Buf: captured})
			captured++
		default:
			if captured > 0 {
				s = append(s, gstep{Kind: "stale", W: rg.Intn(k), Buf: rg.Intn(captured)})
			}
		}
	}
	// delayed payloads still in flight arrive, then a closing round of exchanges reaches everyone
	for b := 0; b < captured; b++ {
		if rg.Intn(2) == 0 {
			s = append(s, gstep{Kind: "stale", W: rg.Intn(k), Buf: b})
		}
	}
	o := rg.Perm(k)
	for i := 0; i+1 < k; i++ {
		s = append(s, gstep{Kind: "xchg", V: o[i], W: o[i+1]})
	}
	for i := k - 1; i > 0; i-- {
		s = append(s, gstep{Kind: "xchg", V: o[i], W: o[i-1]})
	}
	return s
}

func toInfo(u upd) dragonboat.ShardInfo {
	return dragonboat.ShardInfo{ShardID: u.ShardID, ReplicaID: 1, Replicas: u.Replicas, ConfigChangeIndex: u.ConfigChangeIndex, LeaderID: u.LeaderID, Term: u.Term}
}

func (w *watched) absorbSlots() {
	for _, si := range w.slots {
		w.know[si.ShardID].add(cluster.VerifToShardViewList([]dragonboat.ShardInfo{si})[0])
	}
	for id := range w.dirty {
		delete(w.dirty, id)
	}
}

func (w *watched) notify() {
	w.v.Update(cluster.VerifToShardViewList(w.slots))
	w.absorbSlots()
}

func snapshotKnow(k map[uint64]*sv) map[uint64]sv {
	o := make(map[uint64]sv, len(k))
	for id, s := range k {
		o[id] = *s
	}
	return o
}

func (c *l1case) deliverGossip(kind string, k int, script []gstep) {
	views := make([]*watched, k)
	for i := range views {
		views[i] = c.newWatched(string(rune('A' + i)))
	}
	type payload struct {
		buf  []byte
		know map[uint64]sv
	}
	var payloads []payload
	c.deliveries++
	for si, st := range script {
		si := si
		steps := func() []string { return c.renderScript(script[:si+1]) }
		var touched []*watched
		switch st.Kind {
		case "update":
			w := views[st.V]
			us := make([]upd, len(st.Idx))
			for j, i := range st.Idx {
				us[j] = c.ms.U[i]
				w.know[us[j].ShardID].add(us[j])
			}
			w.v.Update(us)
			touched = []*watched{w}
		case "local":
			w := views[st.V]
			u := c.ms.U[st.Idx[0]]
			if w.dirty[u.ShardID] {
				w.notify() // never lose an update: what the node knew before is merged first
			}
			replaced := false
			for i := range w.slots {
				if w.slots[i].ShardID == u.ShardID {
					w.slots[i] = toInfo(u)
					replaced = true
				}
			}
			if !replaced {
				w.slots = append(w.slots, toInfo(u))
			}
			w.dirty[u.ShardID] = true
			touched = []*watched{w}
		case "notify":
			w := views[st.V]
			w.notify()
			touched = []*watched{w}
		case "xchg":
			v, w := views[st.V], views[st.W]
			buf := v.v.LocalState()
			v.absorbSlots()
			w.v.MergeRemoteState(buf)
			for id, s := range v.know {
				w.know[id].merge(*s)
			}
			c.exchanges++
			touched = []*watched{v, w}
		case "capture":
			v := views[st.V]
			buf := v.v.LocalState()
			v.absorbSlots()
			payloads = append(payloads, payload{buf, snapshotKnow(v.know)})
			touched = []*watched{v}
		case "stale":
			w := views[st.W]
			p := payloads[st.Buf]
			w.v.MergeRemoteState(p.buf)
			for id, s := range p.know {
				w.know[id].merge(s)
			}
			c.exchanges++
			touched = []*watched{w}
		}
		c.steps++
		for _, w := range touched {
			if !c.observe(w, "gossip", kind, steps) {
				return
			}
		}
	}
	steps := func() []string { return c.renderScript(script) }
	for _, w := range views {
		if !c.final(w, "gossip", kind, steps) {
			return
		}
	}
}

// ---------------------------------------------------------------------------------------------
// one random multiset, all its deliveries
// ---------------------------------------------------------------------------------------------

const exhaustiveUpTo = 6

var l1Samples, smallSamples atomic.Int64

func sampleSlot(c *atomic.Int64, max int64) bool { return c.Add(1) <= max }

func pickSize(rg *rand.Rand) int {
	switch x := rg.Intn(100); {
	case x < 4:
		return 1 + rg.Intn(2)
	case x < 24:
		return 3
	case x < 60:
		return 4
	case x < 76:
		return 5
	case x < 78:
		return 6
	default:
		return 7 + rg.Intn(6)
	}
}

func runRandomCase(r *ev.Run, seed int64) bool {
	rg := rand.New(rand.NewSource(seed))
	n := pickSize(rg)
	ms := genMultiset(rg, n)
	c := newCase(r, "random", seed, ms)
	exhaustive := n <= exhaustiveUpTo
	if exhaustive {
		permutations(n, func(p []int) bool {
			c.deliverGroups("every-permutation/one-update-per-call", singletons(p))
			if !c.failed {
				c.deliverGroups("every-permutation/random-groups+redelivery", c.randGroups(rg, p))
			}
			return !c.failed
		})
	} else {
		for i := 0; i < 40 && !c.failed; i++ {
			p := rg.Perm(n)
			c.deliverGroups("random-permutation/one-update-per-call", singletons(p))
			if !c.failed {
				c.deliverGroups("random-permutation/random-groups+redelivery", c.randGroups(rg, p))
			}
		}
	}
	for i := 0; i < 6 && !c.failed; i++ {
		c.deliverGossip("two-view-gossip", 2, c.genScript(rg, 2, rg.Perm(n)))
	}
	for i := 0; i < 3 && !c.failed; i++ {
		c.deliverGossip("three-view-gossip", 3, c.genScript(rg, 3, rg.Perm(n)))
	}
	r.Count("deliveries", c.deliveries)
	r.Count("update_or_merge_steps", c.steps)
	r.Count("gossip_exchanges", c.exchanges)
	r.Count("updates_redelivered", c.redelivered)
	r.Count("multisets", 1)
	if exhaustive {
		r.Count("multisets_delivered_in_every_permutation", 1)
	}
	if c.failed {
		return false
	}
	r.Eval(1)
	r.Distinct("multiset", multisetKey(ms.U))
	if nontrivial(ms.U) {
		r.Nontrivial(multisetKey(ms.U))
	}
	if nontrivial(ms.U) && sampleSlot(&l1Samples, 3) {
		r.Sample(map[string]any{"layer": 1, "family": "random", "case_seed": seed, "multiset": fmtUpds(ms.U), "deliveries": c.deliveries,
			"every_permutation": exhaustive, "final_view": c.canon, "nontrivial": nontrivial(ms.U)})
	}
	return true
}

// ---------------------------------------------------------------------------------------------
// small-scope family: EVERY sequence (= every multiset in every order) of length <= L over a
// 12-letter alphabet for one shard: terms {1,2} x {leader named, no leader} x cci {0,1,2}.
// ---------------------------------------------------------------------------------------------

func smallAlphabet() []upd {
	h := shardHist{ID: 7, Terms: []uint64{1, 2}, Leader: map[uint64]uint64{1: 1, 2: 2}, CCIs: []uint64{0, 1, 2},
		Members: map[uint64]map[uint64]string{0: nil, 1: {1: "a:1"}, 2: {1: "a:1", 2: "b:1"}}}
	var a []upd
	for _, t := range h.Terms {
		for _, named := range []bool{true, false} {
			for _, cci := range h.CCIs {
				a = append(a, h.draw(t, cci, named))
			}
		}
	}
	return a
}

func runSmallSeq(r *ev.Run, alpha []upd, seq []int) (bool, int64) {
	ms := multiset{}
	for _, k := range seq {
		ms.U = append(ms.U, alpha[k])
	}
	c := newCase(r, "small-scope", 0, ms)
	c.seq = append([]int{}, seq...)
	p := make([]int, len(seq))
	for i := range p {
		p[i] = i
	}
	c.deliverGroups("small-scope/one-update-per-call", singletons(p))
	if !c.failed {
		// the pure merge function folded over the sequence must agree with the view
		cur := upd{ShardID: 7}
		for _, u := range ms.U {
			cur = cluster.VerifMergeShardInfo(cur, u)
		}
		if d := diff(7, cur, c.want[7]); d != "" {
			c.violation("merge-fold-not-join:"+d, fmt.Sprintf("folding mergeShardInfo gives %s, join %s", fmtUpd(cur), fmtSV(7, c.want[7])),
				witnessL1{Delivery: "fold", Steps: c.renderGroups(singletons(p)), Shard: 7, Got: fmtUpd(cur), Want: fmtSV(7, c.want[7])})
		}
	}
	if !c.failed && len(seq) >= 2 {
		c.deliverGroups("small-scope/one-call", [][]int{p})
	}
	return !c.failed, c.deliveries
}

// runSmallScope enumerates all sequences of length 1..L whose first letter is `first`.
func runSmallScope(r *ev.Run, L int, first int) {
	alpha := smallAlphabet()
	var n, nt, nd int64
	seq := []int{first}
	var rec func()
	rec = func() {
		ok, d := runSmallSeq(r, alpha, seq)
		nd += d
		if !ok {
			r.Count("small_scope_sequences_failed", 1)
		} else {
			n++
			us := make([]upd, len(seq))
			for i, k := range seq {
				us[i] = alpha[k]
			}
			if nontrivial(us) {
				nt++
				r.Nontrivial(multisetKey(us))
				if len(seq) == L && sampleSlot(&smallSamples, 1) {
					r.Sample(map[string]any{"layer": 1, "family": "small-scope", "sequence": fmtUpds(us), "final_view": fmtSV(7, joinSorted(us)[7])})
				}
			}
		}
		if len(seq) == L {
			return
		}
		for k := range alpha {
			seq = append(seq, k)
			rec()
			seq = seq[:len(seq)-1]
		}
	}
	rec()
	r.Count("small_scope_sequences", n)
	r.Count("small_scope_sequences_nontrivial", nt)
	r.Count("deliveries", nd)
	r.Eval(n)
}
