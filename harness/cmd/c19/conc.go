package main

import (
	"encoding/json"
	"flag"
	"fmt"
	"math/rand"
	"os"
	"os/exec"
	"path/filepath"
	"regexp"
	"sort"
	"strings"
	"sync"
	"sync/atomic"

	"github.com/jamf/regatta/storage/cluster"
	"github.com/lni/dragonboat/v4"

	"verifharness/internal/ev"
)

// ---------------------------------------------------------------------------------------------
// Concurrent use of one view: update / copy / shardInfo / LocalState / MergeRemoteState from
// many goroutines. Judged (a) by the race detector, (b) per reader goroutine: what one
// goroutine reads in sequence never regresses, (c) at the end: the view is the join of all
// updates that were delivered.
// ---------------------------------------------------------------------------------------------

type witnessConc struct {
	Layer    int    `json:"layer"`
	Kind     string `json:"kind"`
	CaseSeed int64  `json:"case_seed"`
	Reader   string `json:"reader,omitempty"`
	Shard    uint64 `json:"shard,omitempty"`
	Before   string `json:"before,omitempty"`
	Got      string `json:"got,omitempty"`
	Want     string `json:"want,omitempty"`
}

// concFinding / concResult travel from the child process to the parent as JSON.
type concFinding struct {
	Sig     string      `json:"sig"`
	What    string      `json:"what"`
	Witness witnessConc `json:"witness"`
}

type concResult struct {
	Seed     int64          `json:"seed"`
	OK       bool           `json:"ok"`
	Writes   int64          `json:"writes"`
	Reads    int64          `json:"reads"`
	Findings []concFinding  `json:"findings"`
	Sample   map[string]any `json:"sample"`
}

func runConcurrent(seed int64) concResult {
	res := concResult{Seed: seed}
	rg := rand.New(rand.NewSource(seed))
	// one long consistent history for three shards
	var hs []shardHist
	for i, id := range []uint64{1000, 10001, 10002} {
		h := genHist(rand.New(rand.NewSource(seed+int64(i)+1)), id, 1, 1)
		h.Terms, h.CCIs = nil, nil
		h.Leader, h.Members = map[uint64]uint64{}, map[uint64]map[uint64]string{}
		for t := uint64(1); t <= 60; t++ {
			h.Terms = append(h.Terms, t)
			if rg.Intn(6) != 0 {
				h.Leader[t] = 1 + uint64(rg.Intn(3))
			}
		}
		for c := uint64(1); c <= 25; c++ {
			h.CCIs = append(h.CCIs, c)
			h.Members[c] = map[uint64]string{1: "a:1", 2: "b:1", 3 + c%3: fmt.Sprintf("c%d:1", c)}
		}
		hs = append(hs, h)
	}
	const nUpd = 6000
	all := make([]upd, nUpd)
	for i := range all {
		h := &hs[rg.Intn(len(hs))]
		// roughly increasing over time, with stragglers
		ti := i*len(h.Terms)/nUpd - rg.Intn(8)
		if ti < 0 {
			ti = 0
		}
		ci := i*len(h.CCIs)/nUpd - rg.Intn(4)
		if ci < 0 {
			ci = 0
		}
		all[i] = h.draw(h.Terms[ti], h.CCIs[ci], rg.Intn(3) != 0)
	}
	want := joinSorted(all)

	// node-local Raft information (what infoF returns): immutable, drawn from `all`
	infos := make([]cluster.Info, 64)
	for i := range infos {
		var l []dragonboat.ShardInfo
		for s := 0; s < len(hs); s++ {
			l = append(l, toInfo(all[(i*nUpd/len(infos)+s*7)%nUpd]))
		}
		infos[i] = cluster.Info{NodeID: 1, ShardInfoList: l}
	}
	var infoN atomic.Uint64
	v := cluster.NewVerifView(func() cluster.Info { return infos[infoN.Add(1)%uint64(len(infos))] })

	// gossip payloads of a peer that has seen growing parts of `all`
	peer := cluster.NewVerifView(nil)
	var payloads [][]byte
	for i := 0; i < 40; i++ {
		lo := rg.Intn(nUpd)
		hi := lo + rg.Intn(nUpd-lo)
		peer.Update(all[lo:hi])
		payloads = append(payloads, peer.LocalState())
	}

	var wg sync.WaitGroup
	var stop atomic.Bool
	var reads, writes atomic.Int64
	type regress struct {
		class  string
		reader string
		shard  uint64
		before upd
		got    upd
	}
	var mu sync.Mutex
	bad := map[string]regress{} // first of each class
	check := func(reader string, prev map[uint64]upd, got upd) {
		if got.ShardID == 0 {
			return
		}
		p := prev[got.ShardID]
		class := ""
		switch {
		case got.Term < p.Term:
			class = "term-regressed"
		case p.LeaderID != 0 && got.LeaderID == 0:
			class = "leader-replaced-by-noleader"
		case got.ConfigChangeIndex < p.ConfigChangeIndex:
			class = "config-index-regressed"
		}
		if class != "" {
			mu.Lock()
			if _, ok := bad[class]; !ok {
				bad[class] = regress{class, reader, got.ShardID, p, got}
			}
			mu.Unlock()
		}
		prev[got.ShardID] = got
	}
	// writers: every update of `all` is delivered by exactly one writer (random group sizes)
	const W = 6
	for w := 0; w < W; w++ {
		wg.Add(1)
		go func(w int) {
			defer wg.Done()
			lrg := rand.New(rand.NewSource(seed*31 + int64(w)))
			lo, hi := w*nUpd/W, (w+1)*nUpd/W
			for i := lo; i < hi; {
				n := 1 + lrg.Intn(8)
				if i+n > hi {
					n = hi - i
				}
				v.Update(all[i : i+n])
				writes.Add(1)
				i += n
			}
		}(w)
	}
	// gossip receivers
	for g := 0; g < 2; g++ {
		wg.Add(1)
		go func(g int) {
			defer wg.Done()
			lrg := rand.New(rand.NewSource(seed*37 + int64(g)))
			for i := 0; i < 150; i++ {
				v.MergeRemoteState(payloads[lrg.Intn(len(payloads))])
				writes.Add(1)
			}
		}(g)
	}
	// readers
	var rwg sync.WaitGroup
	for k := 0; k < 3; k++ {
		rwg.Add(3)
		go func(k int) { // shardInfo
			defer rwg.Done()
			prev := map[uint64]upd{}
			for !stop.Load() {
				for _, h := range hs {
					check(fmt.Sprintf("shardInfo-%d", k), prev, v.ShardInfo(h.ID))
					reads.Add(1)
				}
			}
		}(k)
		go func(k int) { // copy
			defer rwg.Done()
			prev := map[uint64]upd{}
			for !stop.Load() {
				for _, s := range v.Copy() {
					check(fmt.Sprintf("copy-%d", k), prev, s)
				}
				reads.Add(1)
			}
		}(k)
		go func(k int) { // LocalState (also merges the node-local info) and its JSON
			defer rwg.Done()
			prev := map[uint64]upd{}
			for !stop.Load() {
				var st struct {
					ShardView []upd `json:"shard_view"`
				}
				if err := json.Unmarshal(v.LocalState(), &st); err == nil {
					for _, s := range st.ShardView {
						check(fmt.Sprintf("LocalState-%d", k), prev, s)
					}
				}
				reads.Add(1)
			}
		}(k)
	}
	wg.Wait()
	stop.Store(true)
	rwg.Wait()
	res.Writes, res.Reads = writes.Load(), reads.Load()
	for _, b := range bad {
		res.Findings = append(res.Findings, concFinding{"concurrent-reader-saw-" + b.class, fmt.Sprintf("%s: shard %d went from %s to %s", b.reader, b.shard, fmtUpd(b.before), fmtUpd(b.got)),
			witnessConc{Layer: 1, Kind: "concurrent", CaseSeed: seed, Reader: b.reader, Shard: b.shard, Before: fmtUpd(b.before), Got: fmtUpd(b.got)}})
	}
	for _, got := range v.Copy() {
		if d := diff(got.ShardID, got, want[got.ShardID]); d != "" {
			res.Findings = append(res.Findings, concFinding{"concurrent-final-view-not-join:" + d, fmt.Sprintf("shard %d: view %s, join %s", got.ShardID, fmtUpd(got), fmtSV(got.ShardID, want[got.ShardID])),
				witnessConc{Layer: 1, Kind: "concurrent", CaseSeed: seed, Shard: got.ShardID, Got: fmtUpd(got), Want: fmtSV(got.ShardID, want[got.ShardID])}})
		}
	}
	res.OK = len(res.Findings) == 0
	res.Sample = map[string]any{"layer": 1, "family": "concurrent", "case_seed": seed, "updates": nUpd, "writer_goroutines": W + 2, "reader_goroutines": 9,
		"update_and_merge_calls": res.Writes, "reads": res.Reads, "final_view": canonView(v.Copy())}
	return res
}

// ---------------------------------------------------------------------------------------------
// The workload runs in a child process: an unsynchronised map makes the Go runtime abort the
// process ("fatal error: concurrent map ..."), which is an outcome to classify, not to suffer.
// ---------------------------------------------------------------------------------------------

var concChild = flag.String("conc-child", "", "internal: run the concurrent workload, write results to this file")
var concRounds = flag.Int("conc-rounds", 3, "internal: number of rounds of the concurrent workload")
var concCase = flag.Int64("conc-case", 0, "internal: run this case seed in every round (replay)")

func concSeed(runSeed int64, i int) int64 { return runSeed*5_000_011 + int64(i) }

// concChildMain is the child side: log each case before running it, results at the end.
func concChildMain(runSeed int64) {
	logf, _ := os.OpenFile(*concChild+".cases", os.O_CREATE|os.O_WRONLY|os.O_APPEND, 0o644)
	var all []concResult
	for i := 0; i < *concRounds; i++ {
		s := concSeed(runSeed, i)
		if *concCase != 0 {
			s = *concCase
		}
		if logf != nil {
			fmt.Fprintf(logf, "%d\n", s)
			_ = logf.Sync()
		}
		all = append(all, runConcurrent(s))
	}
	b, _ := json.Marshal(all)
	if err := os.WriteFile(*concChild, b, 0o644); err != nil {
		fmt.Fprintln(os.Stderr, "conc child:", err)
		os.Exit(3)
	}
	os.Exit(0)
}

var crashRe = regexp.MustCompile(`(?m)^(fatal error|panic): (.*)$`)

// runConcurrentInChild is the parent side.
func runConcurrentInChild(r *ev.Run, rounds int, caseSeed int64) {
	scratch := os.Getenv("SCRATCH")
	if scratch == "" {
		d, err := os.MkdirTemp("/var/tmp", "verif.c19.")
		if err != nil {
			r.Inconclusive("concurrent: no scratch directory: " + err.Error())
			return
		}
		defer os.RemoveAll(d)
		scratch = d
	}
	self := os.Getenv("VERIF_SELF")
	if self == "" {
		self, _ = os.Executable()
	}
	out := filepath.Join(scratch, fmt.Sprintf("conc-%d.json", os.Getpid()))
	_ = os.Remove(out)
	_ = os.Remove(out + ".cases")
	errPath := out + ".stderr"
	errf, err := os.Create(errPath)
	if err != nil {
		r.Inconclusive("concurrent: " + err.Error())
		return
	}
	cmd := exec.Command("timeout", "-s", "QUIT", "300", self, "--conc-child", out, "--conc-rounds", fmt.Sprint(rounds), "--conc-case", fmt.Sprint(caseSeed), "--seed", fmt.Sprint(r.Seed), "--tier", r.Tier)
	cmd.Stdout, cmd.Stderr = errf, errf
	runErr := cmd.Run()
	errf.Close()
	if b, err := os.ReadFile(out); err == nil && runErr == nil {
		var all []concResult
		if json.Unmarshal(b, &all) == nil {
			for i, res := range all {
				r.Count("concurrent_writes", res.Writes)
				r.Count("concurrent_reads", res.Reads)
				for _, f := range res.Findings {
					sigMu.Lock()
					sigCount[f.Sig]++
					n := sigCount[f.Sig]
					sigMu.Unlock()
					if n == 1 {
						r.Violation(f.Sig, f.What, f.Witness)
					}
				}
				if res.OK {
					r.Count("concurrent_rounds", 1)
					if i == 0 {
						r.Sample(res.Sample)
					}
				}
			}
			return
		}
	}
	// the child died
	stderr, _ := os.ReadFile(errPath)
	cases, _ := os.ReadFile(out + ".cases")
	lastCase := ""
	if l := strings.Fields(string(cases)); len(l) > 0 {
		lastCase = l[len(l)-1]
	}
	code := -1
	if ee, ok := runErr.(*exec.ExitError); ok {
		code = ee.ExitCode()
	}
	text := string(stderr)
	if m := crashRe.FindStringSubmatch(text); m != nil && code != 124 {
		// first regatta frame after the message names the place
		where := ""
		for _, line := range strings.Split(text[strings.Index(text, m[0]):], "\n") {
			if strings.HasPrefix(line, regattaPrefix) && !strings.Contains(line, "Verif") {
				where = strings.TrimPrefix(line, regattaPrefix)
				if i := strings.LastIndex(where, "("); i > 0 { // argument list
					where = where[:i]
				}
				break
			}
		}
		if len(text) > 4000 {
			text = text[:4000]
		}
		var cs int64
		fmt.Sscan(lastCase, &cs)
		r.Violation("concurrent-use-crash:"+m[2]+":"+where, fmt.Sprintf("the process running concurrent update/copy/shardInfo/LocalState/MergeRemoteState on one view died: %s: %s (in %s)", m[1], m[2], where),
			map[string]any{"layer": 1, "kind": "concurrent", "case_seed": cs, "exit_code": code, "stderr_head": text})
		return
	}
	if len(text) > 1500 {
		text = text[len(text)-1500:]
	}
	r.Inconclusive(fmt.Sprintf("concurrent child ended with exit code %d (124 = watchdog) without a result; last case %s; stderr tail: %s", code, lastCase, text))
}

// ---------------------------------------------------------------------------------------------
// race detector reports ($SCRATCH/race.* written through GORACE log_path)
// ---------------------------------------------------------------------------------------------

type raceBlock struct {
	Sig     string   `json:"signature"`
	Regatta bool     `json:"regatta_frame"`
	View    bool     `json:"view_frame"`
	Stacks  []string `json:"outermost_frames"`
	Text    string   `json:"text,omitempty"`
}

var frameRe = regexp.MustCompile(`^\s{2}(\S+)\(\)\s*$`)

const regattaPrefix = "github.com/jamf/regatta/"

// frames under the monitor's subject: the shard view, the gossip delegate, the header path
func viewFrame(f string) bool {
	return strings.HasPrefix(f, regattaPrefix+"storage/cluster.") ||
		strings.Contains(f, "storage.(*Engine).getHeader") || strings.Contains(f, "storage.(*Engine).clusterInfo")
}

func parseRaceLog(text string) []raceBlock {
	var out []raceBlock
	parts := strings.Split(text, "WARNING: DATA RACE")
	for _, p := range parts[1:] {
		if i := strings.Index(p, "=================="); i >= 0 {
			p = p[:i]
		}
		// stacks are separated by blank lines; the first two are the two accesses
		var stacks [][]string
		var cur []string
		flush := func() {
			if cur != nil {
				stacks = append(stacks, cur)
				cur = nil
			}
		}
		for _, line := range strings.Split(p, "\n") {
			if strings.TrimSpace(line) == "" {
				flush()
				continue
			}
			if m := frameRe.FindStringSubmatch(line); m != nil {
				cur = append(cur, m[1])
			} else if !strings.HasPrefix(line, "      ") && cur == nil {
				cur = []string{}
			}
		}
		flush()
		b := raceBlock{}
		var outer []string
		for si, st := range stacks {
			if si >= 2 {
				break
			}
			o := ""
			for _, f := range st { // innermost first; keep the last regatta frame that is not the hook shim
				if strings.HasPrefix(f, regattaPrefix) {
					b.Regatta = true
					if viewFrame(f) {
						b.View = true
					}
					if !strings.Contains(f, "Verif") {
						o = strings.TrimPrefix(f, regattaPrefix)
					}
				}
			}
			if o == "" && len(st) > 0 {
				o = "(" + st[0] + ")"
			}
			outer = append(outer, o)
		}
		sort.Strings(outer)
		b.Stacks = outer
		b.Sig = "race:" + strings.Join(outer, "+")
		if len(p) > 3000 {
			p = p[:3000]
		}
		b.Text = p
		out = append(out, b)
	}
	return out
}

var raceSeen = map[string]bool{}
var raceBytes = map[string]int{}

// collectRaces reads new content of the race logs and reports regatta view races as violations.
func collectRaces(r *ev.Run, phase string) {
	scratch := os.Getenv("SCRATCH")
	if scratch == "" || !strings.Contains(os.Getenv("GORACE"), "log_path") {
		r.Extra("race_log", "GORACE log_path not set: race reports (if any) went to stderr and were not counted")
		return
	}
	files, _ := filepath.Glob(filepath.Join(scratch, "race*"))
	for _, f := range files {
		b, err := os.ReadFile(f)
		if err != nil {
			continue
		}
		text := string(b[raceBytes[f]:])
		// only consume complete blocks
		if i := strings.LastIndex(text, "=================="); i >= 0 {
			text = text[:i+18]
		} else {
			continue
		}
		raceBytes[f] += len(text)
		for _, blk := range parseRaceLog(text) {
			r.Count("race_reports_total", 1)
			switch {
			case blk.View:
				r.Count("race_reports_view", 1)
				if !raceSeen[blk.Sig] {
					raceSeen[blk.Sig] = true
					r.Violation(blk.Sig, "data race on the shard view / gossip delegate / header path during "+phase, map[string]any{"layer": 0, "phase": phase, "report": blk})
				}
			case blk.Regatta:
				r.Count("race_reports_other_regatta", 1)
				if !raceSeen[blk.Sig] {
					raceSeen[blk.Sig] = true
					fmt.Printf("NOTE race outside the shard view (not deciding for C19) during %s: %s\n", phase, blk.Sig)
					r.Note("race outside the view during " + phase + ": " + blk.Sig)
				}
			default:
				r.Count("race_reports_third_party_or_harness", 1)
				if !raceSeen[blk.Sig] {
					raceSeen[blk.Sig] = true
					r.Note("race without regatta frame during " + phase + ": " + blk.Sig)
				}
			}
		}
	}
	r.Extra("race_log", "read from "+filepath.Join(scratch, "race*"))
}
