// C19 — the gossiped shard view converges and never regresses to an older leader.
//
// Layer 1 drives the real shardView (update / mergeShardInfo / copy / shardInfo) and the real
// memberlist delegate (LocalState -> JSON -> MergeRemoteState) through the `verif` export shim
// with Raft-consistent multisets of updates, delivered in every order (<= 6 updates) or in
// seeded random orders, cut into arbitrary update() calls, with re-deliveries, and spread over
// two and three views that gossip with each other; plus every sequence up to a small length
// over a 12-letter alphabet; plus concurrent use of one view under the race detector.
// Layer 2 watches the ResponseHeaders of a real 3-node cluster during forced leader transfers.
package main

import (
	"fmt"
	"os"
	"runtime"
	"sync"
	"time"

	"verifharness/internal/ev"
)

func main() {
	r := ev.Start("C19", "exploration")
	r.Rule("layer 1: a case is a multiset of 1-12 shard updates for 1-3 shards drawn from a Raft-consistent history (one leader per term, one membership per config-change index; " +
		"'no leader' updates with old and new terms; duplicates); delivered in EVERY permutation when it has <= 6 updates (each permutation once one update per call and once in random groups with " +
		"re-deliveries), in 40 seeded permutations otherwise, and 9 times through 2- and 3-view gossip scripts (direct updates, node-local Raft info picked up by LocalState, exchanges in random " +
		"order, delayed payloads); additionally every sequence of length <= L over a 12-letter single-shard alphabet. A multiset is non-trivial when one shard has >= 2 terms, an update naming a leader and a no-leader update " +
		"carrying that shard's highest term, and the multiset contains a duplicate; distinct by hash of the sorted multiset. Layer 2: 3-node cluster, leader transfers, every ResponseHeader (unary calls and every message of multi-message range streams that stay open across a leader change) monitored per (observer, node, shard)")
	r.Assume("multisets are Raft-consistent: two updates with the same term never name different leaders; two updates with the same config-change index carry the same replicas; a named leader has term >= 1; config-change index 0 means 'no membership known yet' (dragonboat's pending ShardInfo)",
		"replicas compare by content (nil and empty are the same membership)",
		"live layer: after each batch of transfers, unassisted convergence of the headers to Raft's (term, leader) is awaited with a 3 s watchdog; its expiry is counted as inconclusive, never as a violation; the view is then refreshed explicitly (Cluster.Notify, the same merge LocalState performs on every memberlist push/pull) and must name Raft's leader afterwards - that part is decided without a clock",
		"race reports are deciding only when a frame of storage/cluster (view, delegate) or Engine.getHeader/clusterInfo is on one of the two access stacks; other reports are listed as notes")
	r.Exhaustive(false)
	if *concChild != "" {
		concChildMain(r.Seed)
	}
	if r.Replay != "" {
		replay(r)
		r.Finish()
	}

	phases := map[string]float64{}
	t0 := time.Now()
	lap := func(name string) { phases[name] = time.Since(t0).Seconds(); t0 = time.Now() }
	// ---- layer 1: random multisets -----------------------------------------------------------
	nCases := r.Pick(4000, 30000)
	only := os.Getenv("C19_ONLY") // diagnostic: "live" skips layer 1 (the coverage floors then fail the run)
	if only == "live" {
		nCases = 0
	}
	workers := runtime.NumCPU()
	if workers > 16 {
		workers = 16
	}
	jobs := make(chan int64, 256)
	var wg sync.WaitGroup
	for w := 0; w < workers; w++ {
		wg.Add(1)
		go func() {
			defer wg.Done()
			for s := range jobs {
				runRandomCase(r, s)
			}
		}()
	}
	for i := 0; i < nCases; i++ {
		jobs <- r.Seed*1_000_003 + int64(i)
	}
	close(jobs)
	wg.Wait()
	lap("random_multisets")

	// ---- layer 1: small scope, every sequence ---------------------------------------------------
	L := r.Pick(4, 5)
	if only == "live" {
		L = 1
	}
	var wg2 sync.WaitGroup
	for first := 0; first < len(smallAlphabet()); first++ {
		wg2.Add(1)
		go func(first int) { defer wg2.Done(); runSmallScope(r, L, first) }(first)
	}
	wg2.Wait()
	lap("small_scope")
	r.Extra("exhaustive_parts", map[string]any{
		"every_permutation_for_multisets_up_to": exhaustiveUpTo,
		"multisets_delivered_in_every_permutation": r.Get("multisets_delivered_in_every_permutation"),
		"small_scope": fmt.Sprintf("every sequence of length 1..%d over 12 updates of one shard (terms {1,2} x {leader named, no leader} x config-change index {0,1,2}): %d sequences", L, r.Get("small_scope_sequences")),
	})

	// ---- layer 1: concurrent use under the race detector -----------------------------------------
	runConcurrentInChild(r, r.Pick(3, 20), 0)
	r.Extra("race_detector", raceOn)
	collectRaces(r, "concurrent update/copy/shardInfo/LocalState/MergeRemoteState on one view")

	lap("concurrent")
	// ---- layer 2: live cluster ----------------------------------------------------------------------
	liveRuns, episodes, transfers := r.Pick(1, 5), r.Pick(6, 10), r.Pick(6, 8)
	for i := 0; i < liveRuns; i++ {
		runLive(r, r.Seed*9_000_011+int64(i), episodes, transfers)
	}
	collectRaces(r, "live 3-node cluster with leader transfers")
	lap("live")
	r.Extra("phase_seconds", phases)

	r.FloorNontrivial(int64(r.Pick(300, 3000)))
	r.FloorCount("deliveries", int64(r.Pick(150_000, 1_800_000)))
	r.FloorCount("multisets_delivered_in_every_permutation", int64(r.Pick(2000, 15000)))
	r.FloorCount("gossip_exchanges", int64(r.Pick(50_000, 500_000)))
	r.FloorCount("small_scope_sequences", int64(r.Pick(22_620, 271_452)))
	r.FloorCount("concurrent_rounds", int64(r.Pick(3, 20)))
	r.FloorCount("live_episodes_settled", int64(r.Pick(3, 35)))
	r.FloorCount("live_headers_observed", int64(r.Pick(1000, 10000)))
	r.FloorCount("live_transfers_completed", int64(r.Pick(10, 150)))
	r.FloorCount("live_stream_probes_with_midstream_term_change", int64(r.Pick(2, 25)))
	r.FloorDistinct("live_table_shard_terms_in_headers", int64(r.Pick(8, 120)))
	r.Finish()
}

func replay(r *ev.Run) {
	var probe struct {
		Layer  int    `json:"layer"`
		Family string `json:"family"`
		Kind   string `json:"kind"`
	}
	if _, err := r.ReadReplay(&probe); err != nil {
		fmt.Fprintln(os.Stderr, "replay:", err)
		os.Exit(2)
	}
	switch {
	case probe.Layer == 1 && probe.Family == "random":
		var w witnessL1
		_, _ = r.ReadReplay(&w)
		runRandomCase(r, w.CaseSeed)
	case probe.Layer == 1 && probe.Family == "small-scope":
		var w witnessL1
		_, _ = r.ReadReplay(&w)
		runSmallSeq(r, smallAlphabet(), w.Seq)
	case probe.Layer == 1 && probe.Kind == "concurrent":
		var w witnessConc
		_, _ = r.ReadReplay(&w)
		for i := 0; i < 10 && r.Violations() == 0; i++ {
			runConcurrentInChild(r, 3, w.CaseSeed)
			collectRaces(r, "replay")
		}
	case probe.Layer == 2:
		var w witnessLive
		_, _ = r.ReadReplay(&w)
		replayLive(r, w)
	default: // race report: schedule dependent, re-run the concurrent workload
		var w struct {
			CaseSeed int64 `json:"case_seed"`
		}
		_, _ = r.ReadReplay(&w)
		for i := 0; i < 10 && r.Violations() == 0; i++ {
			runConcurrentInChild(r, 3, w.CaseSeed)
			collectRaces(r, "replay")
		}
	}
}
