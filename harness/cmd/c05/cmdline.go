package main

// Layer "cmdline" — black box: the REAL binaries `regatta leader` and `regatta follower` (one
// node each) with their command-line wiring (cmd/leader.go, cmd/follower.go: flag -> viper ->
// storage / replication config), which the in-process scenarios of this driver bypass. Every
// replication flag gets a NON-DEFAULT value, so that a flag handed to the wrong config field
// changes what a client of the follower observes:
//
//	leader:   --raft.snapshot-entries / --raft.compaction-overhead small (the log is compacted before
//	          the follower exists: it has to recover from a snapshot), --replication.log-cache-size,
//	          --replication.max-send-message-size-bytes above the follower's DEFAULT receive limit
//	follower: --replication.log-rpc-timeout=300ms (a log round is short) but
//	          --replication.snapshot-rpc-timeout=5m (a table download takes its time: ~16 MiB over
//	          a link of 8 MiB/s), short poll / reconcile / lease intervals,
//	          --replication.max-recv-message-size-bytes above the leader's send target,
//	          --replication.max-recovery-in-flight in {1, 2} with two tables to recover,
//	          --replication.max-snapshot-recv-bytes-per-second above the link rate
//
// The follower reaches the leader through the gRPC proxy of cmdline_proxy.go. Oracle at the
// client boundary, decided on logical events only: the leader is quiet; once the follower has
// asked the leader for index L+1 and has been answered "nothing newer, I am at L" (so the index
// the follower has recorded IS the leader's latest), a Range over the whole table through the
// follower's KV API must equal the one through the leader's KV API; the index the follower asks
// for never decreases; the table sets are equal. A follower that does not get there within the
// watchdog is INCONCLUSIVE — unless the proxy has seen it start its snapshot download again and
// again without one download ever completing: that follower never recovers.

import (
	"bytes"
	"context"
	"crypto/sha256"
	"encoding/hex"
	"fmt"
	"math/rand"
	"os"
	"sort"
	"strings"
	"time"

	pb "github.com/jamf/regatta/regattapb"
	"google.golang.org/grpc"

	"verifharness/internal/ev"
)

const (
	bbLinkRate      = 8 << 20 // bytes per second of one snapshot stream through the proxy
	bbLogTimeout    = "300ms"
	bbSnapTimeout   = "5m"
	bbBound         = 90 * time.Second // watchdog of one convergence wait (never a verdict by itself)
	bbGiveUpAfter   = 25               // snapshot downloads cut off without one completing: decided, no need to sit out the watchdog
	bbMinAttempts   = 3
	bbDefaultRecv   = 8 << 20 // default of --replication.max-recv-message-size-bytes
	bbTableBig      = "big"
	bbTableSmall    = "small"
	bbTableLate     = "late"
	bbSigNever      = "follower-never-recovers-by-snapshot@cmdline"
	bbSigNoStart    = "follower-never-starts-snapshot-recovery@cmdline"
	bbSigContent    = "follower-state-is-not-leader-state-at-recorded-index@cmdline"
	bbSigBackwards  = "recorded-leader-index-moved-backwards@cmdline"
	bbSigTableSet   = "follower-table-set-does-not-converge@cmdline"
	bbSigFollowerEx = "follower-process-exited@cmdline"
)

type bbParams struct {
	BigKeys      int    `json:"big_table_keys_of_1MiB"`
	SmallOps     int    `json:"small_table_ops"`
	InFlight     int    `json:"max_recovery_in_flight"`
	LogCache     int    `json:"leader_log_cache_size"`
	MaxSend      uint64 `json:"leader_max_send_message_size_bytes"`
	MaxRecv      uint64 `json:"follower_max_recv_message_size_bytes"`
	SnapEntries  uint64 `json:"leader_snapshot_entries"`
	Overhead     uint64 `json:"leader_compaction_overhead"`
	SnapRecvRate uint64 `json:"follower_max_snapshot_recv_bytes_per_second"`
}

func bbParamsFor(seed int64) bbParams {
	g := rand.New(rand.NewSource(seed))
	return bbParams{
		BigKeys:      15 + g.Intn(4),
		SmallOps:     40 + g.Intn(30),
		InFlight:     1 + g.Intn(2),
		LogCache:     []int{0, 64, 1024}[g.Intn(3)],
		MaxSend:      []uint64{12 << 20, 16 << 20}[g.Intn(2)],
		MaxRecv:      []uint64{32 << 20, 48 << 20}[g.Intn(2)],
		SnapEntries:  uint64(11 + g.Intn(4)),
		Overhead:     uint64(2 + g.Intn(3)),
		SnapRecvRate: []uint64{32 << 20, 64 << 20}[g.Intn(2)],
	}
}

// runCmdline is the entry point called from main(): a fixed, seed-determined list of cases.
func runCmdline(r *ev.Run) {
	r.Note("layer cmdline: real `regatta leader` + `regatta follower` binaries behind a counting, rate-limiting gRPC proxy; non-default replication flags (log-rpc-timeout 300ms, snapshot-rpc-timeout 5m, 16 MiB table over 8 MiB/s); verdicts on proxy events + whole-table Range follower == leader")
	for i, n := 0, r.Pick(1, 3); i < n; i++ {
		runCmdlineCase(r, r.Seed*7_000_003+int64(i))
	}
}

type bbCase struct {
	r       *ev.Run
	seed    int64
	par     bbParams
	ld, fo  *bbNode
	px      *bbProxy
	lflags  []string
	fflags  []string
	lastRev map[string]uint64 // per table: revision (= leader log index) of the last acknowledged write
	ops     []string
}

func (c *bbCase) witness(what string) witness {
	w := witness{Case: caseID{Scenario: "cmdline", Seed: c.seed}, What: what,
		Config: "regatta leader " + strings.Join(c.lflags, " ") + " | regatta follower " + strings.Join(c.fflags, " ") +
			fmt.Sprintf(" | link: gRPC proxy, snapshot streams limited to %d MiB/s", bbLinkRate>>20),
		Writes: tailStr(c.ops, 14)}
	if c.px != nil {
		w.Samples = append(w.Samples, fmt.Sprintf("proxy counters: %+v", c.px.summary()))
		for _, t := range c.px.tables() {
			for _, s := range c.px.snapCalls(t, 4) {
				w.Samples = append(w.Samples, fmt.Sprintf("Snapshot/Stream(%s): deadline sent by the follower %.2fs, open for %.2fs, %d B forwarded, ended with %s", s.Table, s.AskedS, s.OpenS, s.Bytes, s.End))
			}
		}
	}
	return w
}

func (c *bbCase) violation(sig, what string) {
	c.r.Violation(sig, "[cmdline] "+what, c.witness(what))
}

func (c *bbCase) inconclusive(why string) {
	c.r.Inconclusive("[cmdline] " + why)
}

func tailStr(s []string, n int) []string {
	if len(s) > n {
		s = s[len(s)-n:]
	}
	return append([]string{}, s...)
}

// ---- leader writes (the only writer is the harness) ------------------------------------------------

func (c *bbCase) note(table string, rev uint64, desc string, err error) error {
	if err != nil {
		return fmt.Errorf("leader write %s on %s failed: %v", desc, table, err)
	}
	if rev <= c.lastRev[table] {
		return fmt.Errorf("leader write %s on %s acknowledged with revision %d after %d", desc, table, rev, c.lastRev[table])
	}
	c.lastRev[table] = rev
	c.ops = append(c.ops, fmt.Sprintf("%s@%d: %s", table, rev, desc))
	c.r.Count("cmdline_leader_writes", 1)
	return nil
}

func (c *bbCase) put(table, key string, val []byte) error {
	ctx, cancel := context.WithTimeout(context.Background(), 20*time.Second)
	defer cancel()
	resp, err := pb.NewKVClient(c.ld.api).Put(ctx, &pb.PutRequest{Table: []byte(table), Key: []byte(key), Value: val})
	return c.note(table, resp.GetHeader().GetRevision(), fmt.Sprintf("Put(%s, %d B)", key, len(val)), err)
}

// toggle: if exists(key) then delete it else put it — applied twice or not at all, it shows.
func (c *bbCase) toggle(table, key string, val []byte) error {
	ctx, cancel := context.WithTimeout(context.Background(), 20*time.Second)
	defer cancel()
	k := []byte(key)
	resp, err := pb.NewKVClient(c.ld.api).Txn(ctx, &pb.TxnRequest{Table: []byte(table),
		Compare: []*pb.Compare{{Key: k}},
		Success: []*pb.RequestOp{{Request: &pb.RequestOp_RequestDeleteRange{RequestDeleteRange: &pb.RequestOp_DeleteRange{Key: k}}}},
		Failure: []*pb.RequestOp{{Request: &pb.RequestOp_RequestPut{RequestPut: &pb.RequestOp_Put{Key: k, Value: val}}}}})
	return c.note(table, resp.GetHeader().GetRevision(), fmt.Sprintf("Txn(if exists(%s) delete else put %d B)", key, len(val)), err)
}

func (c *bbCase) del(table, key, end string) error {
	ctx, cancel := context.WithTimeout(context.Background(), 20*time.Second)
	defer cancel()
	req := &pb.DeleteRangeRequest{Table: []byte(table), Key: []byte(key)}
	if end != "" {
		req.RangeEnd = []byte(end)
	}
	resp, err := pb.NewKVClient(c.ld.api).DeleteRange(ctx, req)
	return c.note(table, resp.GetHeader().GetRevision(), fmt.Sprintf("DeleteRange(%s, %s)", key, end), err)
}

// createTable creates a table through the leader's Tables API and waits until it takes a write.
func (c *bbCase) createTable(table string) error {
	ctx, cancel := context.WithTimeout(context.Background(), 20*time.Second)
	_, err := pb.NewTablesClient(c.ld.api).Create(ctx, &pb.CreateTableRequest{Name: table})
	cancel()
	if err != nil {
		return fmt.Errorf("Tables.Create(%s): %v", table, err)
	}
	var last error
	for deadline := time.Now().Add(30 * time.Second); time.Now().Before(deadline); time.Sleep(50 * time.Millisecond) {
		// an idempotent first write: retried until the table's shard has elected its leader
		if last = c.put(table, "first", []byte("1")); last == nil {
			return nil
		}
	}
	return last
}

// paced: one poll interval of the follower between two leader writes, so that it tails the log
// instead of falling behind the leader's (aggressive) log compaction.
func (c *bbCase) paced(err error) error {
	time.Sleep(150 * time.Millisecond)
	return err
}

func (c *bbCase) pacedOps(g *rand.Rand, table string, n int) error {
	for i := 0; i < n; i++ {
		if err := c.paced(c.smallOps(g, table, 1)); err != nil {
			return err
		}
	}
	return nil
}

func (c *bbCase) smallOps(g *rand.Rand, table string, n int) error {
	ks := []string{"a", "b", "c", "d", "e", "f", "g"}
	for i := 0; i < n; i++ {
		k := ks[g.Intn(len(ks))]
		val := []byte(fmt.Sprintf("s%d-%d-%s", c.seed%1000, len(c.ops), strings.Repeat("v", g.Intn(300))))
		var err error
		switch x := g.Intn(10); {
		case x < 5:
			err = c.toggle(table, k, val)
		case x < 6:
			err = c.del(table, k, "")
		case x < 7:
			err = c.del(table, k, "z")
		default:
			err = c.put(table, k, val)
		}
		if err != nil {
			return err
		}
	}
	return nil
}

// ---- whole-table reads through the public KV API -------------------------------------------------------

type bbDump struct {
	keys []string
	sum  map[string]string // key -> length and hash of the value
}

// bbDumpTable pages through the whole table with plain Range calls (a response carries at most
// ~4 MiB and says `more`).
func bbDumpTable(conn *grpc.ClientConn, table string) (*bbDump, error) {
	d := &bbDump{sum: map[string]string{}}
	next := []byte{0}
	for page := 0; page < 10000; page++ {
		ctx, cancel := context.WithTimeout(context.Background(), 20*time.Second)
		resp, err := pb.NewKVClient(conn).Range(ctx, &pb.RangeRequest{Table: []byte(table), Key: next, RangeEnd: []byte{0}})
		cancel()
		if err != nil {
			return nil, err
		}
		for _, kv := range resp.Kvs {
			k := string(kv.Key)
			if _, dup := d.sum[k]; dup {
				return nil, fmt.Errorf("key %q returned twice while paging", k)
			}
			h := sha256.Sum256(kv.Value)
			d.keys = append(d.keys, k)
			d.sum[k] = fmt.Sprintf("%d B sha256 %s", len(kv.Value), hex.EncodeToString(h[:6]))
		}
		if !resp.More {
			return d, nil
		}
		if len(resp.Kvs) == 0 {
			return nil, fmt.Errorf("Range(%s) from %q: empty page that says more", table, next)
		}
		next = append(append([]byte{}, resp.Kvs[len(resp.Kvs)-1].Key...), 0)
	}
	return nil, fmt.Errorf("Range(%s): more than 10000 pages", table)
}

func bbDiff(follower, leader *bbDump) string {
	var out []string
	for _, k := range leader.keys {
		if v, ok := follower.sum[k]; !ok {
			out = append(out, fmt.Sprintf("key %q (%s on the leader) is missing on the follower", k, leader.sum[k]))
		} else if v != leader.sum[k] {
			out = append(out, fmt.Sprintf("key %q is %s on the follower, %s on the leader", k, v, leader.sum[k]))
		}
	}
	for _, k := range follower.keys {
		if _, ok := leader.sum[k]; !ok {
			out = append(out, fmt.Sprintf("key %q (%s) exists on the follower only", k, follower.sum[k]))
		}
	}
	if len(out) == 0 {
		return ""
	}
	n := len(out)
	if n > 5 {
		out = out[:5]
	}
	return fmt.Sprintf("%d differences (leader %d keys, follower %d keys): %s", n, len(leader.keys), len(follower.keys), strings.Join(out, "; "))
}

func bbTableSet(conn *grpc.ClientConn) ([]string, error) {
	ctx, cancel := context.WithTimeout(context.Background(), 10*time.Second)
	defer cancel()
	resp, err := pb.NewTablesClient(conn).List(ctx, &pb.ListTablesRequest{})
	if err != nil {
		return nil, err
	}
	var ts []string
	for _, t := range resp.Tables {
		ts = append(ts, t.Name)
	}
	sort.Strings(ts)
	return ts, nil
}

// followerView is what a client of the follower sees of a table right now (for messages only).
func (c *bbCase) followerView(table string) string {
	d, err := bbDumpTable(c.fo.api, table)
	if err != nil {
		return "not readable (" + truncateBB(err.Error(), 120) + ")"
	}
	return fmt.Sprintf("%d keys", len(d.keys))
}

// ---- the oracle --------------------------------------------------------------------------------------

// await waits until, for every table, the follower has asked for an index behind the last
// acknowledged leader write and was answered "up to date", then compares the contents. It returns
// false when the case has been decided (violation / inconclusive).
func (c *bbCase) await(phase string, tables []string) bool {
	pending := func() []string {
		var p []string
		for _, t := range tables {
			if st := c.px.get(t); st.Tails == 0 || st.TailIdx < c.lastRev[t] {
				p = append(p, t)
			}
		}
		return p
	}
	var left []string
	start := time.Now()
	for deadline := start.Add(bbBound); ; time.Sleep(50 * time.Millisecond) {
		if left = pending(); len(left) == 0 {
			break
		}
		if !c.fo.p.alive() {
			if strings.Contains(fmt.Sprint(c.fo.p.waitErr), "killed") {
				c.inconclusive(fmt.Sprintf("%s: the follower process was killed from outside: %v", phase, c.fo.p.waitErr))
			} else {
				c.violation(bbSigFollowerEx, fmt.Sprintf("%s: the follower process exited while replicating (%v); log tail: %s", phase, c.fo.p.waitErr, c.fo.p.tail(1500)))
			}
			return false
		}
		if !c.ld.p.alive() {
			c.inconclusive(fmt.Sprintf("%s: the leader process exited: %v; log tail: %s", phase, c.ld.p.waitErr, c.ld.p.tail(600)))
			return false
		}
		gaveUp := false
		for _, t := range left {
			if st := c.px.get(t); st.SnapCompleted == 0 && st.SnapFailed >= bbGiveUpAfter {
				gaveUp = true
			}
		}
		if gaveUp || time.Now().After(deadline) {
			break
		}
	}
	for _, t := range tables { // holds for every table, converged or not
		if st := c.px.get(t); st.Backwards != "" {
			c.violation(bbSigBackwards, fmt.Sprintf("%s: table %s: the index the follower asks the leader for (its recorded leader index + 1) moved backwards: %s", phase, t, st.Backwards))
			return false
		}
	}
	if len(left) > 0 {
		waited := time.Since(start).Round(time.Second)
		for _, t := range left {
			if st := c.px.get(t); st.SnapStarted >= bbMinAttempts && st.SnapFailed >= bbMinAttempts && st.SnapCompleted == 0 {
				calls := c.px.snapCalls(t, 3)
				asked := "no deadline"
				if len(calls) > 0 && calls[0].AskedS >= 0 {
					asked = fmt.Sprintf("a deadline of %.2fs", calls[0].AskedS)
				}
				c.violation(bbSigNever, fmt.Sprintf("%s: the leader is quiet and has compacted its log (answered USE_SNAPSHOT %d times for table %s); the follower started the snapshot download %d times in %s and not one download completed (last one ended with %s; the follower sent %s with its Snapshot/Stream calls although it runs with --replication.snapshot-rpc-timeout=%s --replication.log-rpc-timeout=%s; snapshot streams pass the link at %d MiB/s); a client of the follower sees table %s as: %s; the leader has %d keys in it",
					phase, st.UseSnapshot, t, st.SnapStarted, waited, st.lastSnapErr, asked, bbSnapTimeout, bbLogTimeout, bbLinkRate>>20, t, c.followerView(t), c.leaderKeys(t)))
				return false
			}
		}
		// no table that is behind has ever opened a snapshot stream (so none of them holds a recovery
		// slot), yet each was told USE_SNAPSHOT poll after poll
		noStart := time.Since(start) >= bbBound
		for _, t := range left {
			if st := c.px.get(t); st.SnapStarted != 0 || st.UseSnapshot < 50 {
				noStart = false
			}
		}
		if noStart {
			t := left[0]
			st := c.px.get(t)
			c.violation(bbSigNoStart, fmt.Sprintf("%s: the leader is quiet and answered USE_SNAPSHOT %d times for table %s in %s; the follower (--replication.max-recovery-in-flight=%d; no snapshot stream open, none ever opened for the tables %v that are behind) never starts a snapshot download; a client of the follower sees table %s as: %s; the leader has %d keys in it",
				phase, st.UseSnapshot, t, waited, c.par.InFlight, left, t, c.followerView(t), c.leaderKeys(t)))
			return false
		}
		c.inconclusive(fmt.Sprintf("%s: watchdog (%s): tables %v not up to date; proxy counters %+v; follower log tail: %s", phase, waited, left, c.px.summary(), c.fo.p.tail(500)))
		return false
	}
	for _, t := range tables {
		ldump, err := bbDumpTable(c.ld.api, t)
		if err != nil {
			c.inconclusive(fmt.Sprintf("%s: reading table %s through the leader API: %v", phase, t, err))
			return false
		}
		fdump, err := bbDumpTable(c.fo.api, t)
		st := c.px.get(t)
		if err != nil {
			c.violation(bbSigContent, fmt.Sprintf("%s: table %s: the follower has recorded leader index %d = the leader's latest (leader quiet), but the table is not readable through the follower's KV API: %v", phase, t, st.TailIdx, err))
			return false
		}
		if why := bbDiff(fdump, ldump); why != "" {
			c.violation(bbSigContent, fmt.Sprintf("%s: table %s: the follower has recorded leader index %d = the leader's latest (leader quiet, last write at %d), but Range over the whole table differs: %s", phase, t, st.TailIdx, c.lastRev[t], why))
			return false
		}
		c.r.Count("cmdline_table_content_equal_at_leader_latest_index", 1)
		c.r.Count("cmdline_keys_compared", int64(len(ldump.keys)))
		c.r.Nontrivial(fmt.Sprint("cmdline", c.seed, phase, t, st.TailIdx))
	}
	return true
}

func (c *bbCase) leaderKeys(t string) int {
	d, err := bbDumpTable(c.ld.api, t)
	if err != nil {
		return -1
	}
	return len(d.keys)
}

// compacted waits until the leader answers a read from index 1 with USE_SNAPSHOT (what a fresh
// follower will be told).
func (c *bbCase) compacted(table string) bool {
	conn, err := bbDial(c.ld.repl)
	if err != nil {
		return false
	}
	defer conn.Close()
	for deadline := time.Now().Add(30 * time.Second); time.Now().Before(deadline); time.Sleep(100 * time.Millisecond) {
		ctx, cancel := context.WithTimeout(context.Background(), 5*time.Second)
		st, err := pb.NewLogClient(conn).Replicate(ctx, &pb.ReplicateRequest{Table: []byte(table), LeaderIndex: 1})
		if err == nil {
			if m, err := st.Recv(); err == nil && m.GetErrorResponse() != nil && m.GetErrorResponse().GetError() == pb.ReplicateError_USE_SNAPSHOT {
				cancel()
				return true
			}
		}
		cancel()
	}
	return false
}

func runCmdlineCase(r *ev.Run, seed int64) {
	bin := os.Getenv("VERIF_REGATTA_BIN")
	if bin == "" {
		r.Inconclusive("[cmdline] VERIF_REGATTA_BIN is not set (run through /verif/check; cmd/c05/NEEDS_BINARY asks for the binary)")
		return
	}
	base, cleanup, err := bbScratch()
	if err != nil {
		r.Inconclusive("[cmdline] scratch dir: " + err.Error())
		return
	}
	defer cleanup()
	defer bbKillAll()
	defer bbDropData(base)
	c := &bbCase{r: r, seed: seed, par: bbParamsFor(seed), lastRev: map[string]uint64{}}
	g := rand.New(rand.NewSource(seed ^ 0x5eed))
	tag := fmt.Sprintf("%d", seed)

	// 1. the leader, its tables and their content — all before the follower exists
	c.ld, c.lflags, err = bbStart(bin, base, "leader", tag, func(repl int) []string {
		return []string{
			fmt.Sprintf("--replication.address=http://127.0.0.1:%d", repl),
			fmt.Sprintf("--raft.snapshot-entries=%d", c.par.SnapEntries),
			fmt.Sprintf("--raft.compaction-overhead=%d", c.par.Overhead),
			fmt.Sprintf("--replication.log-cache-size=%d", c.par.LogCache),
			fmt.Sprintf("--replication.max-send-message-size-bytes=%d", c.par.MaxSend),
		}
	})
	if err != nil {
		r.Inconclusive("[cmdline] leader start: " + err.Error())
		return
	}
	defer c.ld.close()
	r.Count("cmdline_binary_starts", 1)
	for _, t := range []string{bbTableBig, bbTableSmall} {
		if err := c.createTable(t); err != nil {
			c.inconclusive(err.Error())
			return
		}
	}
	for i := 0; i < c.par.BigKeys; i++ {
		v := make([]byte, 1<<20) // random: neither the snapshot file nor the gzip'd stream can shrink it
		g.Read(v)
		if err := c.put(bbTableBig, fmt.Sprintf("key-%03d", i), v); err != nil {
			c.inconclusive(err.Error())
			return
		}
	}
	if err := c.smallOps(g, bbTableSmall, c.par.SmallOps); err != nil {
		c.inconclusive(err.Error())
		return
	}
	for _, t := range []string{bbTableBig, bbTableSmall} {
		if !c.compacted(t) {
			c.inconclusive(fmt.Sprintf("the leader (--raft.snapshot-entries=%d --raft.compaction-overhead=%d) still serves table %s from index 1 after %d writes: no snapshot recovery to observe", c.par.SnapEntries, c.par.Overhead, t, len(c.ops)))
			return
		}
	}

	// 2. the link and the follower
	c.px, err = bbStartProxy(c.ld.repl, bbLinkRate)
	if err != nil {
		c.inconclusive("proxy: " + err.Error())
		return
	}
	defer c.px.close()
	c.fo, c.fflags, err = bbStart(bin, base, "follower", tag, func(int) []string {
		return []string{
			"--replication.leader-address=http://" + c.px.addr,
			"--replication.poll-interval=100ms",
			"--replication.reconcile-interval=500ms",
			"--replication.lease-interval=400ms",
			"--replication.log-rpc-timeout=" + bbLogTimeout,
			"--replication.snapshot-rpc-timeout=" + bbSnapTimeout,
			fmt.Sprintf("--replication.max-recv-message-size-bytes=%d", c.par.MaxRecv),
			fmt.Sprintf("--replication.max-recovery-in-flight=%d", c.par.InFlight),
			fmt.Sprintf("--replication.max-snapshot-recv-bytes-per-second=%d", c.par.SnapRecvRate),
			"--replication.keepalive-time=30s",
			"--replication.keepalive-timeout=5s",
		}
	})
	if err != nil {
		r.Inconclusive("[cmdline] follower start: " + err.Error())
		return
	}
	defer c.fo.close()
	r.Count("cmdline_binary_starts", 1)

	// 3. the leader is quiet: the follower has to get there by snapshot recovery
	if !c.await("snapshot recovery", []string{bbTableBig, bbTableSmall}) {
		return
	}
	for _, t := range []string{bbTableBig, bbTableSmall} {
		st := c.px.get(t)
		if st.SnapCompleted > 0 && st.UseSnapshot > 0 {
			r.Count("cmdline_follower_recoveries_by_snapshot", 1)
		}
		r.Count("cmdline_snapshot_streams_cut_off", int64(st.SnapFailed))
	}

	// 4. more leader writes, paced so that the follower tails the log (one poll interval apart):
	// non-idempotent commands on both tables. And a table created now whose log the leader never
	// compacts (fewer entries than --raft.snapshot-entries): the link drops its log calls until
	// 5 x 2 MiB are written, so that everything arrives in ONE log message larger than the
	// follower's DEFAULT receive limit (both message size flags are wired).
	before := map[string]int64{}
	for _, t := range []string{bbTableBig, bbTableSmall} {
		before[t] = c.px.get(t).Commands
	}
	c.px.hold(bbTableLate, true)
	err = c.createTable(bbTableLate)
	for i := 0; i < 5 && err == nil; i++ { // (a value has 2 MiB at most; compressible: quick to gzip within the 300 ms log round)
		err = c.put(bbTableLate, fmt.Sprintf("later-%d", i), bytes.Repeat([]byte{byte('A' + i)}, 2<<20))
	}
	if err == nil {
		err = c.toggle(bbTableLate, "later-0", []byte("toggled"))
	}
	if err == nil && c.lastRev[bbTableLate] >= c.par.SnapEntries {
		err = fmt.Errorf("table %s reached index %d: the leader may compact its log (--raft.snapshot-entries=%d)", bbTableLate, c.lastRev[bbTableLate], c.par.SnapEntries)
	}
	c.px.hold(bbTableLate, false)
	if err == nil {
		err = c.pacedOps(g, bbTableSmall, 6+g.Intn(4))
	}
	if err == nil {
		err = c.paced(c.del(bbTableBig, "key-001", "key-004"))
	}
	if err == nil {
		err = c.paced(c.toggle(bbTableBig, "key-000", []byte("toggled")))
	}
	if err == nil {
		v := make([]byte, 1<<20)
		g.Read(v)
		err = c.paced(c.put(bbTableBig, "key-005", v))
	}
	if err != nil {
		c.inconclusive(err.Error())
		return
	}
	if !c.await("log replication", []string{bbTableBig, bbTableSmall, bbTableLate}) {
		return
	}
	for _, t := range []string{bbTableBig, bbTableSmall} {
		r.Count("cmdline_commands_replicated_by_log_behind_a_snapshot_recovery", c.px.get(t).Commands-before[t])
	}
	if st := c.px.get(bbTableLate); st.MaxMsg > bbDefaultRecv && st.SnapStarted == 0 {
		r.Count("cmdline_log_messages_larger_than_default_recv_limit_delivered", 1)
	}
	// table sets
	lt, err1 := bbTableSet(c.ld.api)
	ft, err2 := bbTableSet(c.fo.api)
	switch {
	case err1 != nil || err2 != nil:
		c.inconclusive(fmt.Sprintf("Tables.List: leader %v, follower %v", err1, err2))
		return
	case fmt.Sprint(lt) != fmt.Sprint(ft):
		c.violation(bbSigTableSet, fmt.Sprintf("every table of the leader is replicated up to its latest index, yet Tables.List differs: leader %v, follower %v", lt, ft))
		return
	}
	r.Count("cmdline_table_set_checks", 1)
	if !c.fo.p.alive() || !c.ld.p.alive() {
		c.inconclusive("a server process exited at the end of the case")
		return
	}
	r.Eval(1)
	sum := c.px.summary()
	if os.Getenv("VERIF_C05_DEBUG") != "" {
		fmt.Fprintf(os.Stderr, "cmdline case %d: params %+v\nproxy %+v\nsnapshot streams %+v\nops tail %v\n", seed, c.par, sum, c.px.snapCalls(bbTableBig, 3), tailStr(c.ops, 12))
	}
	r.Count("cmdline_cases_converged", 1)
	r.Sample(map[string]any{"layer": "cmdline", "case_seed": seed, "params": c.par, "leader_writes": len(c.ops), "proxy": sum,
		"snapshot_streams": append(c.px.snapCalls(bbTableBig, 3), c.px.snapCalls(bbTableSmall, 2)...), "writes_excerpt": tailStr(c.ops, 4)})
}
