package main

// Layer "cmdline" — the link between the follower process and the leader's replication API: a
// gRPC proxy inside the driver (Metadata.Get, Snapshot.Stream, Log.Replicate forwarded message
// by message). It is the observation point of the layer (which index the follower asks for = the
// leader index it has recorded + 1; what it is answered; how every snapshot download ended) and
// the WAN-like part of the environment: snapshot streams are limited to a fixed rate, and the log
// calls of one table can be cut for a moment ("link down") so that a backlog builds up.

import (
	"context"
	"fmt"
	"io"
	"net"
	"sort"
	"sync"
	"time"

	pb "github.com/jamf/regatta/regattapb"
	"google.golang.org/grpc"
	"google.golang.org/grpc/codes"
	_ "google.golang.org/grpc/encoding/gzip" // the follower compresses its calls
	"google.golang.org/grpc/status"
)

type bbSnapCall struct {
	Table     string  `json:"table"`
	AskedS    float64 `json:"deadline_sent_by_follower_s"` // -1: none
	Bytes     int64   `json:"bytes_forwarded"`
	OpenS     float64 `json:"open_for_s"`
	Completed bool    `json:"completed"`
	End       string  `json:"ended_with"`
}

type bbTab struct {
	SnapStarted   int    `json:"snapshot_streams_started"`
	SnapCompleted int    `json:"snapshot_streams_completed"`
	SnapFailed    int    `json:"snapshot_streams_cut_off"`
	UseSnapshot   int    `json:"use_snapshot_answers"`
	Rounds        int    `json:"replicate_calls"`
	Cut           int    `json:"replicate_calls_cut_by_the_link"`
	Commands      int64  `json:"commands_forwarded"`
	MaxMsg        int    `json:"largest_log_message_bytes"`
	LastReq       uint64 `json:"last_requested_index"`
	TailIdx       uint64 `json:"up_to_date_at_leader_index"` // the follower asked for TailIdx+1 and the leader answered "nothing newer, I am at TailIdx"
	Tails         int    `json:"up_to_date_answers"`
	Backwards     string `json:"requested_index_moved_backwards,omitempty"`
	held          bool
	logInFlight   int
	lastSnapErr   string
}

type bbProxy struct {
	pb.UnimplementedMetadataServer
	pb.UnimplementedSnapshotServer
	pb.UnimplementedLogServer

	rate int64 // bytes per second of one snapshot stream
	up   *grpc.ClientConn
	srv  *grpc.Server
	addr string

	mu          sync.Mutex
	tabs        map[string]*bbTab
	snaps       []bbSnapCall
	inFlight    int
	maxInFlight int
	metaCalls   int
}

func bbStartProxy(leaderRepl string, rate int64) (*bbProxy, error) {
	up, err := bbDial(leaderRepl)
	if err != nil {
		return nil, err
	}
	l, err := net.Listen("tcp", "127.0.0.1:0")
	if err != nil {
		_ = up.Close()
		return nil, err
	}
	p := &bbProxy{rate: rate, up: up, addr: l.Addr().String(), tabs: map[string]*bbTab{},
		srv: grpc.NewServer(grpc.MaxRecvMsgSize(64 << 20))}
	pb.RegisterMetadataServer(p.srv, p)
	pb.RegisterSnapshotServer(p.srv, p)
	pb.RegisterLogServer(p.srv, p)
	go func() { _ = p.srv.Serve(l) }()
	return p, nil
}

func (p *bbProxy) close() {
	p.srv.Stop()
	_ = p.up.Close()
}

func (p *bbProxy) tab(t string) *bbTab { // p.mu held
	pt := p.tabs[t]
	if pt == nil {
		pt = &bbTab{}
		p.tabs[t] = pt
	}
	return pt
}

// get returns a copy of the counters of one table.
func (p *bbProxy) get(t string) bbTab {
	p.mu.Lock()
	defer p.mu.Unlock()
	return *p.tab(t)
}

// hold cuts (on) or restores the log calls of one table; cutting returns once no earlier call of
// that table is still being served (a log round is short: the follower's log RPC timeout).
func (p *bbProxy) hold(t string, on bool) {
	p.mu.Lock()
	p.tab(t).held = on
	p.mu.Unlock()
	for i := 0; on && i < 200; i++ {
		p.mu.Lock()
		n := p.tab(t).logInFlight
		p.mu.Unlock()
		if n == 0 {
			return
		}
		time.Sleep(10 * time.Millisecond)
	}
}

func (p *bbProxy) Get(ctx context.Context, req *pb.MetadataRequest) (*pb.MetadataResponse, error) {
	p.mu.Lock()
	p.metaCalls++
	p.mu.Unlock()
	return pb.NewMetadataClient(p.up).Get(ctx, req)
}

// The follower asks for gzip'd answers; the proxy answers uncompressed (what crosses the "link" is
// limited by bytes of content anyway): compressing MiBs inside a -race build of this driver takes
// longer than the follower's 300 ms log round.
func bbPlain(ctx context.Context) { _ = grpc.SetSendCompressor(ctx, "identity") }

func (p *bbProxy) Stream(req *pb.SnapshotRequest, srv pb.Snapshot_StreamServer) error {
	t, ctx, start := string(req.Table), srv.Context(), time.Now()
	bbPlain(ctx)
	call := bbSnapCall{Table: t, AskedS: -1}
	if dl, ok := ctx.Deadline(); ok {
		call.AskedS = float64(time.Until(dl).Round(10*time.Millisecond)) / float64(time.Second)
	}
	p.mu.Lock()
	p.tab(t).SnapStarted++
	p.inFlight++
	if p.inFlight > p.maxInFlight {
		p.maxInFlight = p.inFlight
	}
	p.mu.Unlock()
	end := func(err error) error {
		call.OpenS = float64(time.Since(start).Round(10*time.Millisecond)) / float64(time.Second)
		call.Completed = err == nil
		call.End = "OK (whole stream forwarded)"
		if err != nil {
			call.End = status.Code(err).String() + ": " + truncateBB(err.Error(), 160)
		}
		p.mu.Lock()
		pt := p.tab(t)
		if err == nil {
			pt.SnapCompleted++
		} else {
			pt.SnapFailed++
			pt.lastSnapErr = call.End
		}
		p.inFlight--
		if len(p.snaps) < 400 {
			p.snaps = append(p.snaps, call)
		}
		p.mu.Unlock()
		return err
	}
	st, err := pb.NewSnapshotClient(p.up).Stream(ctx, req)
	if err != nil {
		return end(err)
	}
	for {
		ch, err := st.Recv()
		if err == io.EOF {
			return end(nil)
		}
		if err != nil {
			return end(err)
		}
		if err := srv.Send(ch); err != nil {
			return end(err)
		}
		call.Bytes += int64(len(ch.Data))
		// the link: the stream as a whole never runs faster than p.rate
		if wait := time.Until(start.Add(time.Duration(call.Bytes) * time.Second / time.Duration(p.rate))); wait > 0 {
			select {
			case <-time.After(wait):
			case <-ctx.Done():
				return end(status.FromContextError(ctx.Err()).Err())
			}
		}
	}
}

func (p *bbProxy) Replicate(req *pb.ReplicateRequest, srv pb.Log_ReplicateServer) error {
	t, x := string(req.Table), req.LeaderIndex
	bbPlain(srv.Context())
	p.mu.Lock()
	pt := p.tab(t)
	pt.Rounds++
	if x < pt.LastReq && pt.Backwards == "" {
		pt.Backwards = fmt.Sprintf("call %d asks for index %d, the call before asked for %d", pt.Rounds, x, pt.LastReq)
	}
	pt.LastReq = x
	held := pt.held
	if held {
		pt.Cut++
	} else {
		pt.logInFlight++
	}
	p.mu.Unlock()
	if held {
		return status.Error(codes.Aborted, "link down (verification harness)")
	}
	defer func() {
		p.mu.Lock()
		pt.logInFlight--
		p.mu.Unlock()
	}()
	st, err := pb.NewLogClient(p.up).Replicate(srv.Context(), req)
	if err != nil {
		return err
	}
	first := true
	for {
		m, err := st.Recv()
		if err == io.EOF {
			return nil
		}
		if err != nil {
			return err
		}
		p.mu.Lock()
		switch r := m.Response.(type) {
		case *pb.ReplicateResponse_ErrorResponse:
			if r.ErrorResponse.GetError() == pb.ReplicateError_USE_SNAPSHOT {
				pt.UseSnapshot++
			}
		case *pb.ReplicateResponse_CommandsResponse:
			pt.Commands += int64(len(r.CommandsResponse.GetCommands()))
			if sz := m.SizeVT(); sz > pt.MaxMsg {
				pt.MaxMsg = sz
			}
		default:
			if first && x > 0 && m.LeaderIndex == x-1 {
				pt.TailIdx = m.LeaderIndex
				pt.Tails++
			}
		}
		p.mu.Unlock()
		first = false
		if err := srv.Send(m); err != nil {
			return err
		}
	}
}

// summary renders the counters for evidence and witnesses.
func (p *bbProxy) summary() map[string]any {
	p.mu.Lock()
	defer p.mu.Unlock()
	tabs := map[string]bbTab{}
	for k, v := range p.tabs {
		tabs[k] = *v
	}
	return map[string]any{"tables": tabs, "metadata_calls": p.metaCalls, "max_snapshot_streams_in_flight": p.maxInFlight}
}

func (p *bbProxy) snapCalls(t string, n int) []bbSnapCall {
	p.mu.Lock()
	defer p.mu.Unlock()
	var out []bbSnapCall
	for _, c := range p.snaps {
		if c.Table == t && len(out) < n {
			out = append(out, c)
		}
	}
	return out
}

func (p *bbProxy) tables() []string {
	p.mu.Lock()
	defer p.mu.Unlock()
	var ts []string
	for t := range p.tabs {
		ts = append(ts, t)
	}
	sort.Strings(ts)
	return ts
}

func truncateBB(s string, n int) string {
	if len(s) > n {
		return s[:n] + "…"
	}
	return s
}
