package main

// Layer "cmdline" — process helpers: the REAL regatta binary ($VERIF_REGATTA_BIN) started as
// `regatta leader` / `regatta follower`, killed on every exit path. Private to this driver.

import (
	"context"
	"errors"
	"fmt"
	"net"
	"os"
	"os/exec"
	"path/filepath"
	"runtime"
	"sync"
	"syscall"
	"time"

	pb "github.com/jamf/regatta/regattapb"
	"google.golang.org/grpc"
	"google.golang.org/grpc/credentials/insecure"
)

// Children are forked from one goroutine locked to an OS thread that never exits: Pdeathsig is
// delivered when the forking THREAD dies, so this makes it "when the driver dies".
var (
	bbSpawnOnce sync.Once
	bbSpawnCh   = make(chan func())
)

type bbChild struct {
	name    string
	cmd     *exec.Cmd
	args    []string
	logPath string
	done    chan struct{}
	waitErr error
}

var (
	bbChildMu  sync.Mutex
	bbChildren []*bbChild
)

func bbStartChild(name, bin string, args []string, dir, tmp string) (*bbChild, error) {
	bbSpawnOnce.Do(func() {
		go func() {
			runtime.LockOSThread()
			for f := range bbSpawnCh {
				f()
			}
		}()
	})
	logPath := filepath.Join(dir, "out.log")
	lf, err := os.OpenFile(logPath, os.O_CREATE|os.O_WRONLY|os.O_APPEND, 0o644)
	if err != nil {
		return nil, err
	}
	cmd := exec.Command(bin, args...)
	cmd.Stdout, cmd.Stderr, cmd.Dir = lf, lf, dir
	cmd.SysProcAttr = &syscall.SysProcAttr{Pdeathsig: syscall.SIGKILL, Setpgid: true}
	// snapshot temp files of both commands go to os.TempDir(): keep them inside the scratch dir
	cmd.Env = append(os.Environ(), "TMPDIR="+tmp)
	errc := make(chan error, 1)
	bbSpawnCh <- func() { errc <- cmd.Start() }
	err = <-errc
	_ = lf.Close()
	if err != nil {
		return nil, err
	}
	c := &bbChild{name: name, cmd: cmd, args: args, logPath: logPath, done: make(chan struct{})}
	go func() { c.waitErr = cmd.Wait(); close(c.done) }()
	bbChildMu.Lock()
	bbChildren = append(bbChildren, c)
	bbChildMu.Unlock()
	return c, nil
}

func (c *bbChild) alive() bool {
	select {
	case <-c.done:
		return false
	default:
		return true
	}
}

func (c *bbChild) kill() {
	if c == nil {
		return
	}
	if c.alive() {
		_ = syscall.Kill(-c.cmd.Process.Pid, syscall.SIGKILL) // the whole process group
		_ = c.cmd.Process.Kill()
		select {
		case <-c.done:
		case <-time.After(10 * time.Second):
		}
	}
}

func (c *bbChild) tail(n int) string {
	b, _ := os.ReadFile(c.logPath)
	if len(b) > n {
		b = b[len(b)-n:]
	}
	return string(b)
}

// bbKillAll stops every child; called at the end of every case and before the driver exits — and
// the kernel does it (Pdeathsig) if the driver dies without running it.
func bbKillAll() {
	bbChildMu.Lock()
	cs := append([]*bbChild{}, bbChildren...)
	bbChildren = nil
	bbChildMu.Unlock()
	for _, c := range cs {
		c.kill()
	}
}

func bbFreePorts(n int) ([]int, error) {
	var ls []net.Listener
	var ps []net.PacketConn
	defer func() {
		for _, l := range ls {
			_ = l.Close()
		}
		for _, p := range ps {
			_ = p.Close()
		}
	}()
	var ports []int
	for tries := 0; len(ports) < n && tries < 200; tries++ {
		l, err := net.Listen("tcp", "127.0.0.1:0")
		if err != nil {
			return nil, err
		}
		port := l.Addr().(*net.TCPAddr).Port
		pc, err := net.ListenPacket("udp", fmt.Sprintf("127.0.0.1:%d", port))
		if err != nil {
			_ = l.Close()
			continue
		}
		ls, ps, ports = append(ls, l), append(ps, pc), append(ports, port)
	}
	if len(ports) < n {
		return nil, errors.New("no free ports")
	}
	return ports, nil
}

// bbScratch is a private directory under $SCRATCH (set by /verif/check, removed by it) or, when
// run by hand, under /var/tmp (removed by the driver). Never /tmp.
func bbScratch() (dir string, cleanup func(), err error) {
	base := os.Getenv("SCRATCH")
	cleanup = func() {}
	if base == "" {
		d, err := os.MkdirTemp("/var/tmp", "verif.c05.")
		if err != nil {
			return "", cleanup, err
		}
		base = d
		cleanup = func() { _ = os.RemoveAll(d) }
	}
	dir = filepath.Join(base, "c05cmdline")
	return dir, cleanup, os.MkdirAll(filepath.Join(dir, "tmp"), 0o755)
}

func bbDial(addr string) (*grpc.ClientConn, error) {
	return grpc.NewClient("passthrough:///"+addr,
		grpc.WithTransportCredentials(insecure.NewCredentials()),
		grpc.WithDefaultCallOptions(grpc.MaxCallRecvMsgSize(256<<20), grpc.MaxCallSendMsgSize(256<<20)))
}

type bbNode struct {
	p    *bbChild
	api  *grpc.ClientConn
	repl string // leader only: address of the replication API
}

func (n *bbNode) close() {
	if n == nil {
		return
	}
	if n.api != nil {
		_ = n.api.Close()
	}
	n.p.kill()
}

var errBBWatchdog = errors.New("watchdog")

// bbWaitReady polls Tables.List until the API answers, the process dies, or the watchdog fires.
func bbWaitReady(p *bbChild, conn *grpc.ClientConn, bound time.Duration) error {
	tc := pb.NewTablesClient(conn)
	for deadline := time.Now().Add(bound); time.Now().Before(deadline); time.Sleep(50 * time.Millisecond) {
		if !p.alive() {
			return fmt.Errorf("%s exited during start-up: %v; log tail: %s", p.name, p.waitErr, p.tail(600))
		}
		ctx, cancel := context.WithTimeout(context.Background(), 2*time.Second)
		_, err := tc.List(ctx, &pb.ListTablesRequest{})
		cancel()
		if err == nil {
			return nil
		}
	}
	return fmt.Errorf("%s did not answer Tables.List within %s: %w", p.name, bound, errBBWatchdog)
}

// bbStart starts `regatta <mode>` with fresh directories and ports (retried with new ports when the
// process dies during start-up: most likely a port clash with another check on this machine).
// extra gets the replication address port (leader) and returns the mode-specific flags.
func bbStart(bin, base, mode, tag string, extra func(replPort int) []string) (*bbNode, []string, error) {
	var last error
	for attempt := 0; attempt < 10; attempt++ {
		d := filepath.Join(base, fmt.Sprintf("%s-%s-%d", mode, tag, attempt))
		if err := os.MkdirAll(filepath.Join(d, "sm", "data"), 0o755); err != nil {
			return nil, nil, err
		}
		ports, err := bbFreePorts(5)
		if err != nil {
			last = err
			continue
		}
		api, raft, ml, rest, repl := ports[0], ports[1], ports[2], ports[3], ports[4]
		args := []string{mode, "--dev-mode", "--log-level=INFO",
			fmt.Sprintf("--api.address=http://127.0.0.1:%d", api),
			fmt.Sprintf("--raft.address=127.0.0.1:%d", raft),
			fmt.Sprintf("--raft.initial-members=1=127.0.0.1:%d", raft),
			"--raft.node-host-dir=" + filepath.Join(d, "nh"),
			"--raft.state-machine-dir=" + filepath.Join(d, "sm", "data"),
			fmt.Sprintf("--memberlist.address=127.0.0.1:%d", ml),
			"--memberlist.cluster-name=c05-" + mode,
			fmt.Sprintf("--rest.address=http://127.0.0.1:%d", rest),
			"--raft.rtt=5ms",
		}
		flags := extra(repl)
		args = append(args, flags...)
		p, err := bbStartChild(mode, bin, args, d, filepath.Join(base, "tmp"))
		if err != nil {
			return nil, nil, err
		}
		conn, err := bbDial(fmt.Sprintf("127.0.0.1:%d", api))
		if err != nil {
			p.kill()
			return nil, nil, err
		}
		n := &bbNode{p: p, api: conn, repl: fmt.Sprintf("127.0.0.1:%d", repl)}
		if err := bbWaitReady(p, conn, 40*time.Second); err != nil {
			last = err
			n.close()
			if errors.Is(err, errBBWatchdog) {
				return nil, nil, err
			}
			continue
		}
		return n, flags, nil
	}
	return nil, nil, fmt.Errorf("%s start failed 10 times: %v", mode, last)
}

// bbDropData removes the data directories of the servers of a finished case (their logs stay until
// the scratch directory goes): a case leaves ~1 GB of preallocated Raft log files behind.
func bbDropData(base string) {
	for _, pat := range []string{"*/nh", "*/sm"} {
		ds, _ := filepath.Glob(filepath.Join(base, pat))
		for _, d := range ds {
			_ = os.RemoveAll(d)
		}
	}
}
