// C05 — a follower table always equals the leader table at its recorded leader index.
//
// Real code end to end in one process: a leader storage.Engine with the real replication gRPC
// services, a follower storage.Engine with the real replication.Manager (workers, leases) and
// notification queue wired like cmd/follower.go. The harness issues every leader write itself,
// so the map "leader log index -> command" is known and the leader's state at any index can be
// reconstructed with the reference model. The follower is sampled with sandwich reads
// (leader index, full dump, leader index): every usable sample must equal the leader's state at
// that index; the index never moves backwards; after the leader stops the follower reaches the
// leader's final state; created / deleted tables converge. Non-idempotent commands (toggle
// transactions, guarded puts, range deletes followed by puts) make lost, duplicated or
// reordered commands visible.
package main

import (
	"context"
	"fmt"
	"io"
	"math/rand"
	"os"
	"sort"
	"strings"
	"sync"
	"sync/atomic"
	"time"

	pb "github.com/jamf/regatta/regattapb"
	"github.com/jamf/regatta/replication"
	"github.com/jamf/regatta/storage"
	"github.com/jamf/regatta/storage/table/fsm"
	sm "github.com/lni/dragonboat/v4/statemachine"

	"verifharness/internal/cluster"
	"verifharness/internal/ev"
	"verifharness/internal/fsmx"
	"verifharness/internal/gen"
	"verifharness/internal/model"
	"verifharness/internal/racelog"
)

type caseID struct {
	Scenario string `json:"scenario"`
	Seed     int64  `json:"case_seed"`
}

type witness struct {
	Case    caseID   `json:"case"`
	Config  string   `json:"config"`
	Writes  []string `json:"leader_writes_around"`
	What    string   `json:"what"`
	Samples []string `json:"samples_around,omitempty"`
}

type write struct {
	rev  uint64
	cmd  *pb.Command
	desc string
}

type leaderLog struct {
	mu     sync.Mutex
	writes map[string][]write // per table
	failed atomic.Bool
	why    atomic.Value
}

func (l *leaderLog) add(table string, w write) {
	l.mu.Lock()
	l.writes[table] = append(l.writes[table], w)
	l.mu.Unlock()
}

func (l *leaderLog) sorted(table string) []write {
	l.mu.Lock()
	ws := append([]write{}, l.writes[table]...)
	l.mu.Unlock()
	sort.Slice(ws, func(i, j int) bool { return ws[i].rev < ws[j].rev })
	return ws
}

func stateAt(ws []write, idx uint64) *model.Table {
	m := model.NewTable()
	for _, w := range ws {
		if w.rev > idx {
			break
		}
		m.Apply(w.rev, w.cmd)
	}
	return m
}

type sample struct {
	seq   int64
	table string
	li    uint64
	dump  *model.Table
}

func main() {
	r := ev.Start("C05", "exploration")
	r.Supervise()
	r.Rule("scenarios: log (follower tails the leader; membership changes of the leader shard in mid-log, every second one while the follower is paused), second-consumer (another consumer reads the tail of the same leader node's log while the follower is paused), snapshot (follower starts after the leader compacted its log), writes-during-recovery, worker-restart, engine-restart, slow-apply (follower apply stalled so that the worker's proposal times out while in flight), table create/delete; " +
		"leader message-size limit in {300 B, 1 KiB, 4 MiB}, follower MaxInMemLogSize in {0, 4000, 64 KiB, 1 MiB}, leader log cache on/off. " +
		"Non-trivial: a usable follower sample at a leader index > 0 with non-empty content (distinct by scenario, table, leader index), and every scenario with >=30 usable samples at >=10 distinct leader indices and >=5 non-idempotent commands; the evidence lists both counts per scenario")
	r.Assume("every leader write is issued by the harness; a leader write that ends in an error makes the run inconclusive from there",
		"an operator-requested table reset is never issued", "convergence is checked as bounded progress: 60 s after the leader stops, re-checked once at 180 s")
	if r.Replay != "" {
		var w witness
		if _, err := r.ReadReplay(&w); err != nil {
			fmt.Fprintln(os.Stderr, "replay:", err)
			os.Exit(2)
		}
		if w.Case.Scenario == "cmdline" {
			runCmdlineCase(r, w.Case.Seed)
			r.Finish()
		}
		if w.Case.Scenario == "overlapping-rounds" {
			runOverlappingRounds(r, w.Case.Seed)
			r.Finish()
		}
		if w.Case.Scenario == "fsm-capture" {
			for i := 0; i < 20 && r.Violations() == 0; i++ {
				if why, _, err := fsmx.CaptureUnderWrites(w.Case.Seed, fsm.SnapshotRecoveryType(i%2), 1000, 2+i%3); err == nil && why != "" {
					r.Violation("snapshot-stream-is-not-the-leader-state-at-its-declared-index", why, w)
				}
			}
			r.Finish()
		}
		for i := 0; i < 5 && r.Violations() == 0; i++ {
			runScenario(r, w.Case)
		}
		r.Finish()
	}
	quick := []string{"log", "snapshot", "writes-during-recovery", "worker-restart", "slow-apply", "tables", "lease-handover", "second-consumer", "recovery-interrupted"}
	all := append(append([]string{}, quick...), "engine-restart", "second-consumer", "recovery-interrupted", "log", "snapshot", "slow-apply", "writes-during-recovery", "engine-restart")
	list := quick
	if r.Thorough() {
		list = nil
		for i := 0; i < 4; i++ {
			list = append(list, all...)
		}
	}
	for i, sc := range list {
		runScenario(r, caseID{sc, r.Seed*1_000_003 + int64(i)})
	}
	// overlapping replication rounds (what two follower nodes propose around a lease hand-over: the
	// round of the node that lost the lease is committed after the new holder's): every leader
	// command takes effect once, in leader order, and the recorded index never moves backwards
	for i, n := 0, r.Pick(300, 5000); i < n; i++ {
		runOverlappingRounds(r, r.Seed*9_000_003+int64(i))
	}
	r.FloorCount("overlapping_rounds_applied", int64(r.Pick(900, 15000)))
	// what a recovering follower is sent: table streams taken from the leader's state machine while
	// it applies writes back to back must be the leader's state at the index they declare (the
	// follower records that index and resumes the log behind it)
	for i, n := 0, r.Pick(8, 150); i < n; i++ {
		why, st, err := fsmx.CaptureUnderWrites(r.Seed*8_000_003+int64(i), fsm.SnapshotRecoveryType(i%2), 1000, 2+i%3)
		if err != nil {
			r.Inconclusive("capture layer: " + err.Error())
			continue
		}
		r.Count("leader_snapshot_streams_taken_under_writes", st.Captures)
		r.Count("leader_snapshot_stream_distinct_indices", int64(st.DistinctIndices))
		if why != "" {
			r.Violation("snapshot-stream-is-not-the-leader-state-at-its-declared-index", "[leader state machine applying single entries back to back] "+why, witness{Case: caseID{Scenario: "fsm-capture", Seed: r.Seed*8_000_003 + int64(i)}})
		}
	}
	r.FloorCount("leader_snapshot_streams_taken_under_writes", int64(r.Pick(6000, 120000)))
	// black box: the real `regatta leader` / `regatta follower` command lines (cmdline.go)
	runCmdline(r)
	r.FloorCount("cmdline_follower_recoveries_by_snapshot", int64(r.Pick(1, 3)))
	if rep := racelog.Scan(); rep != nil {
		for sig, n := range rep.Regatta {
			r.Note(fmt.Sprintf("race report with regatta frames (recorded, not deciding for C05): %s x%d", sig, n))
		}
		r.Extra("race_reports_regatta", len(rep.Regatta))
	}
	r.FloorNontrivial(int64(r.Pick(60, 600)))
	r.FloorCount("usable_samples", int64(r.Pick(300, 4000)))
	r.FloorCount("leader_writes", int64(r.Pick(500, 6000)))
	r.FloorCount("scenarios_converged", int64(r.Pick(7, 40)))
	r.FloorCount("recoveries_interrupted_by_a_node_restart", int64(r.Pick(1, 4)))
	r.FloorCount("second_consumer_reads_of_the_log_tail", int64(r.Pick(5, 20)))
	r.FloorCount("snapshot_recoveries_observed", int64(r.Pick(2, 12)))
	r.FloorCount("table_set_convergence_checks", int64(r.Pick(2, 8)))
	r.FloorCount("messages_ending_with_raft_internal_entry_behind_data_followed_by_more_in_stream", int64(r.Pick(3, 20)))
	r.Finish()
}

func leaderIndex(e *storage.Engine, table string) (uint64, error) {
	t, err := e.GetTable(table)
	if err != nil {
		return 0, err
	}
	ctx, cancel := context.WithTimeout(context.Background(), 2*time.Second)
	defer cancel()
	r, err := t.LeaderIndex(ctx, false)
	if err != nil {
		return 0, err
	}
	return r.Index, nil
}

func localIndex(e *storage.Engine, table string) (uint64, error) {
	t, err := e.GetTable(table)
	if err != nil {
		return 0, err
	}
	ctx, cancel := context.WithTimeout(context.Background(), 5*time.Second)
	defer cancel()
	r, err := t.LocalIndex(ctx, true)
	if err != nil {
		return 0, err
	}
	return r.Index, nil
}

func dumpStale(e *storage.Engine, table string) (*model.Table, error) {
	ctx, cancel := context.WithTimeout(context.Background(), 5*time.Second)
	defer cancel()
	resp, err := e.Range(ctx, &pb.RangeRequest{Table: []byte(table), Key: []byte{0}, RangeEnd: []byte{0}})
	if err != nil {
		return nil, err
	}
	m := model.NewTable()
	for _, kv := range resp.Kvs {
		m.M[string(kv.Key)] = kv.Value
	}
	return m, nil
}

var keys = []string{"a", "b", "c", "d", "e", "f"}

// writer issues non-idempotent leader writes until stop.
// holdWriters makes the background writers wait (between two of their writes) while it is set: the
// log scenario needs three of its own writes next to each other in the leader's log.
var holdWriters atomic.Bool

func writer(e *storage.Engine, table string, seed int64, lg *leaderLog, stop *atomic.Bool, max int, nonIdem *atomic.Int64, paceMs int) {
	g := rand.New(rand.NewSource(seed))
	for i := 0; i < max && !stop.Load() && !lg.failed.Load(); i++ {
		for holdWriters.Load() && !stop.Load() {
			time.Sleep(time.Millisecond)
		}
		k := []byte(keys[g.Intn(len(keys))])
		tag := []byte(fmt.Sprintf("w%d-%d", seed%1000, i))
		ctx, cancel := context.WithTimeout(context.Background(), 10*time.Second)
		var (
			rev uint64
			err error
			cmd *pb.Command
		)
		switch x := g.Intn(10); {
		case x < 4: // toggle: if exists(k) then delete k else put k
			tx := &pb.TxnRequest{Table: []byte(table),
				Compare: []*pb.Compare{{Key: k}},
				Success: []*pb.RequestOp{{Request: &pb.RequestOp_RequestDeleteRange{RequestDeleteRange: &pb.RequestOp_DeleteRange{Key: k}}}},
				Failure: []*pb.RequestOp{{Request: &pb.RequestOp_RequestPut{RequestPut: &pb.RequestOp_Put{Key: k, Value: tag}}}}}
			var resp *pb.TxnResponse
			resp, err = e.Txn(ctx, tx)
			if err == nil {
				rev = resp.Header.Revision
			}
			cmd = &pb.Command{Table: []byte(table), Type: pb.Command_TXN, Txn: &pb.Txn{Compare: tx.Compare, Success: tx.Success, Failure: tx.Failure}}
			nonIdem.Add(1)
		case x < 6: // append-like guarded put: if value(k) < tag then put k=tag+old? (keeps order visible)
			tx := &pb.TxnRequest{Table: []byte(table),
				Compare: []*pb.Compare{{Key: k, Result: pb.Compare_LESS, TargetUnion: &pb.Compare_Value{Value: []byte("w5")}}},
				Success: []*pb.RequestOp{{Request: &pb.RequestOp_RequestPut{RequestPut: &pb.RequestOp_Put{Key: k, Value: append([]byte("x"), tag...)}}}},
				Failure: []*pb.RequestOp{{Request: &pb.RequestOp_RequestPut{RequestPut: &pb.RequestOp_Put{Key: k, Value: tag}}}}}
			var resp *pb.TxnResponse
			resp, err = e.Txn(ctx, tx)
			if err == nil {
				rev = resp.Header.Revision
			}
			cmd = &pb.Command{Table: []byte(table), Type: pb.Command_TXN, Txn: &pb.Txn{Compare: tx.Compare, Success: tx.Success, Failure: tx.Failure}}
			nonIdem.Add(1)
		case x < 7: // range delete
			var resp *pb.DeleteRangeResponse
			resp, err = e.Delete(ctx, &pb.DeleteRangeRequest{Table: []byte(table), Key: k, RangeEnd: []byte("z")})
			if err == nil {
				rev = resp.Header.Revision
			}
			cmd = &pb.Command{Table: []byte(table), Type: pb.Command_DELETE, Kv: &pb.KeyValue{Key: k}, RangeEnd: []byte("z")}
		case x < 8:
			var resp *pb.DeleteRangeResponse
			resp, err = e.Delete(ctx, &pb.DeleteRangeRequest{Table: []byte(table), Key: k})
			if err == nil {
				rev = resp.Header.Revision
			}
			cmd = &pb.Command{Table: []byte(table), Type: pb.Command_DELETE, Kv: &pb.KeyValue{Key: k}}
		default:
			val := tag
			if g.Intn(6) == 0 {
				val = append(append([]byte{}, tag...), make([]byte, 400+g.Intn(3000))...)
			}
			var resp *pb.PutResponse
			resp, err = e.Put(ctx, &pb.PutRequest{Table: []byte(table), Key: k, Value: val})
			if err == nil {
				rev = resp.Header.Revision
			}
			cmd = &pb.Command{Table: []byte(table), Type: pb.Command_PUT, Kv: &pb.KeyValue{Key: k, Value: val}}
		}
		cancel()
		if err != nil {
			lg.failed.Store(true)
			lg.why.Store(err.Error())
			return
		}
		if rev == 0 {
			lg.failed.Store(true)
			lg.why.Store("leader acknowledged a write with revision 0")
			return
		}
		lg.add(table, write{rev: rev, cmd: cmd, desc: fmt.Sprintf("%d:%s", rev, gen.Describe(cmd))})
		if paceMs > 0 {
			time.Sleep(time.Duration(paceMs/2+g.Intn(paceMs)) * time.Millisecond)
		} else if g.Intn(4) == 0 {
			time.Sleep(time.Duration(g.Intn(3)) * time.Millisecond)
		}
	}
}

func runScenario(r *ev.Run, id caseID) {
	g := rand.New(rand.NewSource(id.Seed))
	maxMsg := []uint64{300, 1024, 4 << 20}[g.Intn(3)]
	if id.Scenario == "log" {
		// the log scenario is about message boundaries: several small entries per message (one
		// entry alone counts ~150 B), the 2.6-4 KiB values never fit behind another entry
		maxMsg = []uint64{1024, 1536, 2048}[g.Intn(3)] // (at 700 B a membership-change entry hardly ever fits behind a data entry)
	}
	inMem := []uint64{0, 1 << 20, 6 << 20, 1 << 20}[g.Intn(4)] // must exceed the worker's 256 KiB proposals
	if (id.Scenario == "snapshot" || id.Scenario == "writes-during-recovery") && g.Intn(2) == 0 {
		inMem = 1 << 20
	}
	logCache := []int{0, 0, 16, 1024}[g.Intn(4)]
	if id.Scenario == "second-consumer" {
		// two consumers of one leader node only interact through its log cache
		logCache = []int{16, 200, 1024}[g.Intn(3)]
		maxMsg = []uint64{700, 2048, 4 << 20}[g.Intn(3)]
	}
	// the leader compacts its log aggressively only in the scenarios that are about snapshot recovery
	snapEntries, overhead := uint64(0), uint64(0)
	if id.Scenario == "recovery-interrupted" {
		inMem = 1 << 20 // restore batches of 512 KiB: the ~900 KiB snapshot is loaded in two or more proposals
	}
	if id.Scenario == "snapshot" || id.Scenario == "writes-during-recovery" || id.Scenario == "recovery-interrupted" {
		snapEntries, overhead = 20, 5
	} else if g.Intn(3) == 0 && id.Scenario != "second-consumer" && id.Scenario != "log" { // (a compaction empties the log cache; with leader snapshots on, membership-change entries were never seen in the stream)
		snapEntries, overhead = 150, 100 // compaction happens, but well behind a tailing follower
	}
	w := witness{Case: id, Config: fmt.Sprintf("leader max message %d B, log cache %d, SnapshotEntries %d / CompactionOverhead %d; follower MaxInMemLogSize %d", maxMsg, logCache, snapEntries, overhead, inMem)}
	l, err := cluster.StartLeader(cluster.Opts{Nodes: 1, SnapshotEntries: snapEntries, CompactionOverhead: overhead, LogCacheSize: logCache}, maxMsg)
	if err != nil {
		r.Inconclusive("leader start: " + err.Error())
		return
	}
	defer l.Close()
	le := l.Nodes[0].Engine
	tables := []string{"t1"}
	if id.Scenario == "tables" || id.Scenario == "snapshot" || (g.Intn(3) == 0 && id.Scenario != "recovery-interrupted") {
		tables = append(tables, "t2")
	}
	for _, t := range tables {
		if _, err := l.CreateTable(t); err != nil {
			r.Inconclusive("create table: " + err.Error())
			return
		}
	}
	lg := &leaderLog{writes: map[string][]write{}}
	var stop atomic.Bool
	var nonIdem atomic.Int64
	var wg sync.WaitGroup
	pace := 0
	startWriters := func(n, max int) {
		for i := 0; i < n; i++ {
			for _, t := range tables {
				wg.Add(1)
				go func(i int, t string) {
					defer wg.Done()
					writer(le, t, id.Seed*17+int64(i)*7+int64(len(t)), lg, &stop, max, &nonIdem, pace)
				}(i, t)
			}
		}
	}
	// follower-side apply stall (slow-apply scenario)
	var t1Applies atomic.Int64 // apply calls of the follower's t1 replicas (incl. recovery shards) that carried an index
	var stall atomic.Int64     // milliseconds to stall the next apply calls
	fNodes := 1
	var stallNode atomic.Int64 // 0 = every node
	if id.Scenario == "lease-handover" {
		fNodes = 3
	}
	fo := cluster.FollowerOpts{
		Opts: cluster.Opts{Nodes: fNodes, MaxInMemLogSize: inMem},
		Hook: func(node uint64, table string, rev uint64) {
			if table == "t1" && rev > 0 {
				t1Applies.Add(1)
			}
			if ms := stall.Load(); ms > 0 && (stallNode.Load() == 0 || stallNode.Load() == int64(node)) {
				time.Sleep(time.Duration(ms) * time.Millisecond)
			}
		},
	}
	if id.Scenario == "slow-apply" {
		fo.Repl = replication.Config{Workers: replication.WorkerConfig{LogRPCTimeout: 300 * time.Millisecond}}
	}
	preWrites := 0
	switch id.Scenario {
	case "snapshot", "writes-during-recovery", "recovery-interrupted":
		// the leader log is compacted before the follower exists
		startWriters(2, 90)
		wg.Wait()
		if id.Scenario == "recovery-interrupted" && !lg.failed.Load() {
			// bulk content: the snapshot needs several restore proposals on the follower
			for i := 0; i < 300 && !lg.failed.Load(); i++ {
				ctx, cancel := context.WithTimeout(context.Background(), 10*time.Second)
				k, v := fmt.Sprintf("bulk-%04d", i), append([]byte(fmt.Sprintf("bulk-%d|", i)), make([]byte, 3000)...)
				if resp, err := le.Put(ctx, &pb.PutRequest{Table: []byte("t1"), Key: []byte(k), Value: v}); err == nil {
					cmd := &pb.Command{Table: []byte("t1"), Type: pb.Command_PUT, Kv: &pb.KeyValue{Key: []byte(k), Value: v}}
					lg.add("t1", write{rev: resp.Header.Revision, cmd: cmd, desc: fmt.Sprintf("%d:%s", resp.Header.Revision, gen.Describe(cmd))})
				} else {
					lg.failed.Store(true)
					lg.why.Store(err.Error())
				}
				cancel()
			}
			stall.Store(400) // the follower applies slowly: its first restore proposal is applied, the load goes on
		}
		preWrites = 1
		if lg.failed.Load() {
			r.Inconclusive("leader write failed: " + fmt.Sprint(lg.why.Load()))
			return
		}
		// shapes of the snapshot stream: the greatest key of t1 holds a value larger than the
		// follower's restore batch threshold (MaxInMemLogSize/2), so that a batch closes exactly on
		// the last pair; in the snapshot scenario t2 is empty when the follower recovers it
		// (nothing but the closing leader-index marker is streamed)
		{
			ctx, cancel := context.WithTimeout(context.Background(), 10*time.Second)
			if inMem > 0 && inMem <= 4<<20 {
				val := append([]byte("last-pair|"), make([]byte, inMem/2+(64<<10))...)
				if resp, err := le.Put(ctx, &pb.PutRequest{Table: []byte("t1"), Key: []byte("zzzz-greatest-key"), Value: val}); err == nil {
					cmd := &pb.Command{Table: []byte("t1"), Type: pb.Command_PUT, Kv: &pb.KeyValue{Key: []byte("zzzz-greatest-key"), Value: val}}
					lg.add("t1", write{rev: resp.Header.Revision, cmd: cmd, desc: fmt.Sprintf("%d:%s", resp.Header.Revision, gen.Describe(cmd))})
					r.Count("snapshot_streams_with_batch_closing_on_the_last_pair", 1)
				} else {
					lg.failed.Store(true)
					lg.why.Store(err.Error())
				}
			}
			if id.Scenario == "snapshot" {
				if resp, err := le.Delete(ctx, &pb.DeleteRangeRequest{Table: []byte("t2"), Key: []byte{0}, RangeEnd: []byte{0}}); err == nil {
					cmd := &pb.Command{Table: []byte("t2"), Type: pb.Command_DELETE, Kv: &pb.KeyValue{Key: []byte{0}}, RangeEnd: []byte{0}}
					lg.add("t2", write{rev: resp.Header.Revision, cmd: cmd, desc: fmt.Sprintf("%d:%s", resp.Header.Revision, gen.Describe(cmd))})
					r.Count("snapshot_streams_of_an_empty_table", 1)
				} else {
					lg.failed.Store(true)
					lg.why.Store(err.Error())
				}
			}
			cancel()
		}
		time.Sleep(300 * time.Millisecond) // let the leader snapshot + compact
	}
	f, err := cluster.StartFollower(l.ReplAddr, fo)
	if err != nil {
		r.Inconclusive("follower start: " + err.Error())
		return
	}
	defer f.Close()
	fe := func() *storage.Engine { return f.Nodes[0].Engine }
	if fNodes > 1 {
		// the table managers of the other follower nodes start a replica only when they reconcile
		// (every 30 s in production): trigger it through the export shim
		var stopRec atomic.Bool
		defer stopRec.Store(true)
		go func() {
			for !stopRec.Load() {
				f.ReconcileAll()
				time.Sleep(150 * time.Millisecond)
			}
		}()
	}

	// sampler
	var samples []sample
	var smu sync.Mutex
	var sseq atomic.Int64
	var stopSampler atomic.Bool
	var swg sync.WaitGroup
	var unusable atomic.Int64
	var paused atomic.Bool
	swg.Add(1)
	go func() {
		defer swg.Done()
		for !stopSampler.Load() {
			if paused.Load() {
				time.Sleep(5 * time.Millisecond)
				continue
			}
			for _, t := range tables {
				e := fe()
				li1, err := leaderIndex(e, t)
				if err != nil {
					continue
				}
				d, err := dumpStale(e, t)
				if err != nil {
					continue
				}
				li2, err := leaderIndex(e, t)
				if err != nil {
					continue
				}
				if li1 != li2 {
					unusable.Add(1)
					continue
				}
				smu.Lock()
				samples = append(samples, sample{sseq.Add(1), t, li1, d})
				smu.Unlock()
			}
			time.Sleep(2 * time.Millisecond)
		}
	}()
	finishSampler := func() {
		stopSampler.Store(true)
		swg.Wait()
	}

	// scenario body
	switch id.Scenario {
	case "log", "tables":
		pace = 4 // spread the writes so that the sampler sees many distinct leader indices
		startWriters(2, 260)
		var injStop atomic.Bool
		injWait := make(chan struct{})
		if id.Scenario != "log" {
			close(injWait)
		}
		if id.Scenario == "log" {
			// Raft-internal entries in the middle of the leader's log (membership changes: a
			// non-voting member that never joins is added to the table shard every ~100 ms); the
			// leader streams them as DUMMY commands
			ig := rand.New(rand.NewSource(id.Seed ^ 0x51ed))
			go func() {
				defer close(injWait)
				g := ig
				for i := 0; i < 12 && !stop.Load() && !injStop.Load(); i++ {
					time.Sleep(time.Duration(60+g.Intn(80)) * time.Millisecond)
					for _, t := range tables {
						at, err := le.GetTable(t)
						if err != nil {
							continue
						}
						ctx, cancel := context.WithTimeout(context.Background(), 3*time.Second)
						if m, err := le.SyncGetShardMembership(ctx, at.ClusterID); err == nil {
							// a key of its own, written once, directly in front of the Raft-internal entry
							put := func(key string, val []byte) {
								if resp, err := le.Put(ctx, &pb.PutRequest{Table: []byte(t), Key: []byte(key), Value: val}); err == nil {
									cmd := &pb.Command{Table: []byte(t), Type: pb.Command_PUT, Kv: &pb.KeyValue{Key: []byte(key), Value: val}}
									lg.add(t, write{rev: resp.Header.Revision, cmd: cmd, desc: fmt.Sprintf("%d:%s", resp.Header.Revision, gen.Describe(cmd))})
								} else {
									lg.failed.Store(true)
									lg.why.Store(err.Error())
								}
							}
							// every second burst happens while the follower's replication is paused, so that
							// the whole burst reaches it in one stream
							paused := i%2 == 1
							if paused {
								f.StopManager(0)
							}
							// the writers stand still for the burst: data entry, Raft-internal entry and the
							// large value are neighbours in the leader's log
							holdWriters.Store(true)
							time.Sleep(15 * time.Millisecond)
							put(fmt.Sprintf("zz-before-membership-change-%d-%s", i, strings.Repeat("k", g.Intn(40))), []byte("x"))
							if le.SyncRequestAddNonVoting(ctx, at.ClusterID, uint64(90+i), fmt.Sprintf("127.0.0.1:%d", 1+i), m.ConfigChangeID) == nil {
								r.Count("raft_internal_entries_injected_mid_log", 1)
								// followed at once by a write larger than the small message-size limits, so that
								// a replication message ends right behind the Raft-internal entry
								val := append([]byte(fmt.Sprintf("after-membership-change-%d|", i)), make([]byte, 2600+g.Intn(1500))...)
								put("f", val)
								put(fmt.Sprintf("zz-after-membership-change-%d", i), []byte("y"))
							}
							holdWriters.Store(false)
							if paused {
								if err := f.StartManager(0); err != nil {
									lg.failed.Store(true)
									lg.why.Store("manager restart: " + err.Error())
								}
							}
						}
						cancel()
					}
				}
			}()
		}
		if id.Scenario == "tables" {
			// tables created and deleted on the leader while replication runs
			time.Sleep(200 * time.Millisecond)
			if _, err := l.CreateTable("extra"); err != nil {
				r.Inconclusive("create extra: " + err.Error())
			}
			// an operator's restore into the replicated table t1 breaks off on the leader (its
			// stream ends with an error): t1 is still there, served and written to - the follower
			// keeps replicating it
			var kvs []model.KV
			for i := 0; i < 30; i++ {
				kvs = append(kvs, model.KV{K: fmt.Sprintf("from-a-restore-that-broke-off-%02d", i), V: make([]byte, 1000)})
			}
			if rd, cleanup, err := cluster.SnapshotStream("t1", kvs, nil); err == nil {
				rerr := le.Restore("t1", &breakingReader{r: rd, left: 12000})
				cleanup()
				if rerr == nil {
					r.Inconclusive("[tables] the restore from a broken stream reported success")
				} else {
					r.Count("leader_restores_that_broke_off", 1)
				}
			}
		}
		wg.Wait()
		injStop.Store(true)
		<-injWait
	case "snapshot":
		// nothing more: the follower must recover from a snapshot and then tail (the leader goes on
		// writing once the follower has recovered every table, at the latest after 3 s)
		for i := 0; i < 150; i++ {
			n := 0
			for _, t := range tables {
				if li, err := leaderIndex(fe(), t); err == nil && li > 0 {
					n++
				}
			}
			if n == len(tables) {
				break
			}
			time.Sleep(20 * time.Millisecond)
		}
		startWriters(1, 25)
		wg.Wait()
	case "writes-during-recovery":
		startWriters(2, 90)
		wg.Wait()
	case "worker-restart":
		pace = 4
		startWriters(2, 260)
		for i := 0; i < 3; i++ {
			time.Sleep(time.Duration(80+g.Intn(150)) * time.Millisecond)
			f.StopManager(0)
			time.Sleep(time.Duration(g.Intn(80)) * time.Millisecond)
			if err := f.StartManager(0); err != nil {
				stop.Store(true)
				wg.Wait()
				finishSampler()
				r.Inconclusive("manager restart: " + err.Error())
				return
			}
			r.Count("worker_restarts", 1)
		}
		wg.Wait()
	case "engine-restart":
		startWriters(2, 140)
		for i := 0; i < 2; i++ {
			time.Sleep(time.Duration(150+g.Intn(200)) * time.Millisecond)
			paused.Store(true)
			time.Sleep(20 * time.Millisecond)
			if err := f.RestartEngine(0); err != nil {
				stop.Store(true)
				wg.Wait()
				finishSampler()
				r.Inconclusive("engine restart: " + err.Error())
				return
			}
			paused.Store(false)
			r.Count("engine_restarts", 1)
		}
		wg.Wait()
	case "lease-handover":
		// three follower nodes compete for the table lease; the replication manager of one node after
		// the other is stopped (its worker returns the lease, another node takes over) while the apply
		// path of the node that is about to take over is stalled (a lagging replica at hand-over)
		pace = 6
		startWriters(1, 100000)
		time.Sleep(600 * time.Millisecond)
		for i := 0; i < 5; i++ {
			victim := i % 3
			next := (victim + 1) % 3
			_ = next
			stallNode.Store(0) // whichever node takes over, its replica lags
			stall.Store(int64(120 + g.Intn(200)))
			time.Sleep(150 * time.Millisecond)
			f.StopManager(victim)
			time.Sleep(time.Duration(500+g.Intn(300)) * time.Millisecond)
			stall.Store(0)
			if err := f.StartManager(victim); err != nil {
				stop.Store(true)
				wg.Wait()
				finishSampler()
				r.Inconclusive("manager restart: " + err.Error())
				return
			}
			r.Count("lease_handovers_forced", 1)
			time.Sleep(time.Duration(200+g.Intn(200)) * time.Millisecond)
		}
		stop.Store(true)
		wg.Wait()
	case "recovery-interrupted":
		// the follower node goes down while it loads the leader's snapshot (after the first restore
		// proposals were applied); while it is down the leader deletes pairs that were already
		// loaded; the node comes back and recovers again
		for i := 0; i < 400 && t1Applies.Load() == 0; i++ {
			time.Sleep(25 * time.Millisecond)
		}
		if t1Applies.Load() == 0 {
			finishSampler()
			r.Inconclusive("[recovery-interrupted] the follower did not apply a restore proposal within 10 s")
			return
		}
		// the first restore proposal is being applied (stalled 400 ms); the next one follows
		time.Sleep(time.Duration(450+g.Intn(200)) * time.Millisecond)
		if li, err := leaderIndex(fe(), "t1"); err == nil && li > 0 {
			r.Count("recoveries_that_completed_before_the_interruption(not the case aimed at)", 1)
		} else {
			r.Count("recoveries_interrupted_by_a_node_restart", 1)
		}
		err := f.CrashEngineWith(0, func() {
			stall.Store(0)
			ctx, cancel := context.WithTimeout(context.Background(), 10*time.Second)
			defer cancel()
			if resp, err := le.Delete(ctx, &pb.DeleteRangeRequest{Table: []byte("t1"), Key: []byte("bulk-0000"), RangeEnd: []byte("bulk-0100")}); err == nil {
				cmd := &pb.Command{Table: []byte("t1"), Type: pb.Command_DELETE, Kv: &pb.KeyValue{Key: []byte("bulk-0000")}, RangeEnd: []byte("bulk-0100")}
				lg.add("t1", write{rev: resp.Header.Revision, cmd: cmd, desc: fmt.Sprintf("%d:%s", resp.Header.Revision, gen.Describe(cmd))})
			} else {
				lg.failed.Store(true)
				lg.why.Store(err.Error())
			}
		})
		if err != nil {
			finishSampler()
			r.Inconclusive("engine restart: " + err.Error())
			return
		}
		r.Count("engine_restarts", 1)
		startWriters(1, 25)
		wg.Wait()
	case "second-consumer":
		// A second consumer of the same leader node (another follower cluster that is nearly caught
		// up, e.g. after a snapshot recovery or served by another leader replica so far) reads the
		// tail of the leader's log while this follower's replication is paused and lags behind.
		pace = 4
		startWriters(2, 400)
		conn, err := cluster.Dial(l.ReplAddr)
		if err != nil {
			stop.Store(true)
			wg.Wait()
			finishSampler()
			r.Inconclusive("dial leader: " + err.Error())
			return
		}
		lc := pb.NewLogClient(conn)
		put := func(t, key string, val []byte) {
			ctx, cancel := context.WithTimeout(context.Background(), 3*time.Second)
			defer cancel()
			if resp, err := le.Put(ctx, &pb.PutRequest{Table: []byte(t), Key: []byte(key), Value: val}); err == nil {
				cmd := &pb.Command{Table: []byte(t), Type: pb.Command_PUT, Kv: &pb.KeyValue{Key: []byte(key), Value: val}}
				lg.add(t, write{rev: resp.Header.Revision, cmd: cmd, desc: fmt.Sprintf("%d:%s", resp.Header.Revision, gen.Describe(cmd))})
			} else {
				lg.failed.Store(true)
				lg.why.Store(err.Error())
			}
		}
		for i := 0; i < 8 && !lg.failed.Load(); i++ {
			time.Sleep(time.Duration(60+g.Intn(80)) * time.Millisecond)
			f.StopManager(0)
			for _, t := range tables {
				put(t, fmt.Sprintf("zz-while-paused-%d", i), []byte("x"))
			}
			time.Sleep(time.Duration(40+g.Intn(60)) * time.Millisecond)
			for _, t := range tables {
				at, err := le.GetTable(t)
				if err != nil {
					continue
				}
				ctx, cancel := context.WithTimeout(context.Background(), 5*time.Second)
				if li, err := at.LocalIndex(ctx, true); err == nil && li.Index > 4 {
					from := li.Index - uint64(g.Intn(4))
					if st, err := lc.Replicate(ctx, &pb.ReplicateRequest{Table: []byte(t), LeaderIndex: from}); err == nil {
						n := 0
						for {
							m, err := st.Recv()
							if err != nil {
								break
							}
							n += len(m.GetCommandsResponse().GetCommands())
						}
						r.Count("second_consumer_reads_of_the_log_tail", 1)
						r.Count("second_consumer_commands_read", int64(n))
					}
				}
				cancel()
			}
			if err := f.StartManager(0); err != nil {
				stop.Store(true)
				wg.Wait()
				finishSampler()
				_ = conn.Close()
				r.Inconclusive("manager restart: " + err.Error())
				return
			}
		}
		_ = conn.Close()
		wg.Wait()
	case "slow-apply":
		// writes keep flowing (paced) while the follower's apply path is stalled several times for
		// longer than the worker's 300 ms proposal timeout
		pace = 12
		startWriters(1, 100000)
		for i := 0; i < 4; i++ {
			time.Sleep(time.Duration(150+g.Intn(250)) * time.Millisecond)
			stall.Store(int64(500 + g.Intn(700)))
			time.Sleep(1500 * time.Millisecond)
			stall.Store(0)
			r.Count("apply_stalls", 1)
		}
		time.Sleep(300 * time.Millisecond)
		stop.Store(true)
		wg.Wait()
	}
	_ = preWrites
	stop.Store(true)
	wg.Wait()
	if lg.failed.Load() {
		finishSampler()
		r.Inconclusive("leader write failed: " + fmt.Sprint(lg.why.Load()))
		return
	}
	if id.Scenario == "tables" {
		// delete a table on the leader after it has been replicated
		_ = le.DeleteTable("t2")
	}
	// convergence (bounded progress)
	final := map[string]*model.Table{}
	lastIdx := map[string]uint64{}
	liveTables := tables
	if id.Scenario == "tables" {
		liveTables = []string{"t1"}
	}
	for _, t := range liveTables {
		ws := lg.sorted(t)
		final[t] = stateAt(ws, ^uint64(0))
		li, err := localIndex(le, t)
		if err != nil {
			finishSampler()
			r.Inconclusive("leader index: " + err.Error())
			return
		}
		lastIdx[t] = li
		r.Count("leader_writes", int64(len(ws)))
	}
	converged := func() (bool, string) {
		for _, t := range liveTables {
			li, err := leaderIndex(fe(), t)
			if err != nil {
				return false, fmt.Sprintf("table %s: %v", t, err)
			}
			d, err := dumpStale(fe(), t)
			if err != nil {
				return false, fmt.Sprintf("table %s: %v", t, err)
			}
			if li != lastIdx[t] {
				return false, fmt.Sprintf("table %s: follower records leader index %d, leader's last index is %d (content diff: %q)", t, li, lastIdx[t], fsmx.DiffContent(d, final[t]))
			}
			if why := fsmx.DiffContent(d, final[t]); why != "" {
				return false, fmt.Sprintf("table %s at leader index %d: %s", t, li, why)
			}
		}
		return true, ""
	}
	ok, why := false, ""
	for deadline := time.Now().Add(60 * time.Second); time.Now().Before(deadline); time.Sleep(50 * time.Millisecond) {
		if ok, why = converged(); ok {
			break
		}
	}
	if !ok {
		for deadline := time.Now().Add(120 * time.Second); time.Now().Before(deadline); time.Sleep(200 * time.Millisecond) {
			if ok, why = converged(); ok {
				break
			}
		}
	}
	finishSampler()
	// judge the samples first (they explain a failed convergence)
	smu.Lock()
	all := samples
	smu.Unlock()
	byTable := map[string][]write{}
	for _, t := range tables {
		byTable[t] = lg.sorted(t)
	}
	distinctLI := map[uint64]bool{}
	lastLI := map[string]uint64{}
	restarted := id.Scenario == "engine-restart"
	for _, s := range all {
		exp := stateAt(byTable[s.table], s.li)
		if why := fsmx.DiffContent(s.dump, exp); why != "" {
			sig := "follower-state-is-not-leader-state-at-recorded-index"
			if id.Scenario == "slow-apply" {
				sig = "follower-state-is-not-leader-state-at-recorded-index@proposal-timeout-with-slow-apply"
			}
			if id.Scenario == "lease-handover" {
				sig = "follower-state-is-not-leader-state-at-recorded-index@lease-handover"
			}
			w.What = fmt.Sprintf("[%s] table %s: follower records leader index %d but %s", id.Scenario, s.table, s.li, why)
			w.Writes = around(byTable[s.table], s.li)
			r.Violation(sig, w.What, w)
			return
		}
		if s.li < lastLI[s.table] && !restarted {
			w.What = fmt.Sprintf("[%s] table %s: recorded leader index moved backwards from %d to %d", id.Scenario, s.table, lastLI[s.table], s.li)
			r.Violation("recorded-leader-index-moved-backwards", w.What, w)
			return
		}
		if s.li > lastLI[s.table] {
			lastLI[s.table] = s.li
		}
		distinctLI[s.li] = true
		r.Count("usable_samples", 1)
		if s.li > 0 && len(s.dump.M) > 0 {
			// a sample taken at a leader index at which the table is non-empty (non-idempotent
			// commands have been replicated up to it): one distinct non-trivial observation
			r.Nontrivial(fmt.Sprint(id.Scenario, id.Seed, s.table, s.li))
		}
	}
	r.Count("unusable_samples(index moved during the read)", unusable.Load())
	if !ok {
		sig := "follower-does-not-reach-leader-final-state"
		if id.Scenario == "slow-apply" {
			sig += "@proposal-timeout-with-slow-apply"
		}
		w.What = fmt.Sprintf("[%s] 180 s after the leader stopped: %s", id.Scenario, why)
		for _, t := range liveTables {
			w.Writes = append(w.Writes, tail(byTable[t], 12)...)
		}
		r.Violation(sig, w.What, w)
		return
	}
	r.Count("scenarios_converged", 1)
	// table sets
	if id.Scenario == "tables" {
		okT := false
		var got []string
		for deadline := time.Now().Add(60 * time.Second); time.Now().Before(deadline); time.Sleep(100 * time.Millisecond) {
			ts, err := fe().GetTables()
			if err != nil {
				continue
			}
			got = nil
			for _, t := range ts {
				got = append(got, t.Name)
			}
			sort.Strings(got)
			if fmt.Sprint(got) == "[extra t1]" {
				okT = true
				break
			}
		}
		if !okT {
			r.Violation("follower-table-set-does-not-converge", fmt.Sprintf("leader has tables [extra t1] (t2 deleted); 60 s later the follower has %v", got), w)
			return
		}
		r.Count("table_set_convergence_checks", 1)
	} else {
		ts, err := fe().GetTables()
		if err == nil && len(ts) == len(tables) {
			r.Count("table_set_convergence_checks", 1)
		}
	}
	// path coverage
	st := l.Stats
	r.Count("replicate_calls", st.ReplicateCalls.Load())
	r.Count("replicated_commands", st.Commands.Load())
	r.Count("use_snapshot_answers", st.UseSnapshot.Load())
	r.Count("messages_carrying_a_raft_internal_entry", st.DummyAny.Load())
	r.Count("messages_carrying_only_a_raft_internal_entry", st.DummyAlone.Load())
	r.Count("messages_starting_with_a_raft_internal_entry", st.DummyFirst.Load())
	r.Count("messages_ending_with_raft_internal_entry_behind_data", st.DummyTail.Load())
	r.Count("messages_ending_with_raft_internal_entry_behind_data_followed_by_more_in_stream", st.DummyTailThenMore.Load())
	r.Count("snapshot_recoveries_observed", st.SnapshotStreams.Load())
	if (id.Scenario == "snapshot" || id.Scenario == "writes-during-recovery") && st.SnapshotStreams.Load() == 0 {
		r.Inconclusive(fmt.Sprintf("[%s] no snapshot stream was observed (the leader log was not compacted in time)", id.Scenario))
	}
	r.Eval(1)
	if len(all) >= 30 && len(distinctLI) >= 10 && nonIdem.Load() >= 5 {
		r.Nontrivial(fmt.Sprint(id.Scenario, id.Seed))
	}
	r.Sample(map[string]any{"scenario": id.Scenario, "config": w.Config, "leader_writes": func() int {
		n := 0
		for _, t := range tables {
			n += len(byTable[t])
		}
		return n
	}(), "usable_samples": len(all), "distinct_leader_indices_sampled": len(distinctLI), "replicate_calls": st.ReplicateCalls.Load(), "snapshot_streams": st.SnapshotStreams.Load(), "writes_excerpt": tail(byTable["t1"], 4)})
}

func around(ws []write, idx uint64) []string {
	var out []string
	for _, w := range ws {
		if w.rev+12 >= idx && w.rev <= idx+4 {
			out = append(out, w.desc)
		}
	}
	return out
}

func tail(ws []write, n int) []string {
	var out []string
	for i := len(ws) - n; i < len(ws); i++ {
		if i >= 0 {
			out = append(out, ws[i].desc)
		}
	}
	return out
}

// runOverlappingRounds feeds a follower state machine the sequences the replication workers of two
// nodes would propose for one leader log when their rounds overlap.
func runOverlappingRounds(r *ev.Run, seed int64) {
	g := rand.New(rand.NewSource(seed))
	n := 20 + g.Intn(60)
	var log []*pb.Command
	states := []*model.Table{model.NewTable()}
	m := model.NewTable()
	for i := 1; i <= n; i++ {
		k := []byte(keys[g.Intn(len(keys))])
		tag := []byte(fmt.Sprintf("l%d", i))
		var c *pb.Command
		switch g.Intn(4) {
		case 0: // toggle
			c = &pb.Command{Table: []byte("t"), Type: pb.Command_TXN, Txn: &pb.Txn{Compare: []*pb.Compare{{Key: k}},
				Success: []*pb.RequestOp{{Request: &pb.RequestOp_RequestDeleteRange{RequestDeleteRange: &pb.RequestOp_DeleteRange{Key: k}}}},
				Failure: []*pb.RequestOp{{Request: &pb.RequestOp_RequestPut{RequestPut: &pb.RequestOp_Put{Key: k, Value: tag}}}}}}
		case 1:
			c = &pb.Command{Table: []byte("t"), Type: pb.Command_DELETE, Kv: &pb.KeyValue{Key: k}}
		case 2:
			c = &pb.Command{Table: []byte("t"), Type: pb.Command_DUMMY} // a Raft-internal entry of the leader
		default:
			c = &pb.Command{Table: []byte("t"), Type: pb.Command_PUT, Kv: &pb.KeyValue{Key: k, Value: tag}}
		}
		li := uint64(i)
		c.LeaderIndex = &li
		log = append(log, c)
		m.Apply(uint64(i), c)
		states = append(states, m.Clone())
	}
	t, err := fsmx.Fresh("t", fsm.SnapshotRecoveryType(g.Intn(2)))
	if err != nil {
		r.Inconclusive("fsm: " + err.Error())
		return
	}
	defer t.Close()
	var rounds []string
	recorded, idx := uint64(0), uint64(0)
	for recorded < uint64(n) {
		// a round starts behind what its node had read (possibly stale: up to 12 entries back) and
		// carries 1..15 leader entries
		back := 0
		if g.Intn(2) == 0 {
			back = g.Intn(13)
		}
		from := int(recorded) + 1 - back
		if from < 1 {
			from = 1
		}
		to := from + g.Intn(15)
		if to > n {
			to = n
		}
		last := uint64(to)
		seq := &pb.Command{Table: []byte("t"), Type: pb.Command_SEQUENCE, LeaderIndex: &last}
		for j := from; j <= to; j++ {
			seq.Sequence = append(seq.Sequence, log[j-1])
		}
		idx++
		rounds = append(rounds, fmt.Sprintf("entry %d: SEQUENCE of leader entries %d..%d (recorded before: %d)", idx, from, to, recorded))
		if _, err := t.Update([]sm.Entry{fsmx.Entry(idx, seq)}); err != nil {
			r.Violation("update-error", err.Error(), witness{Case: caseID{Scenario: "overlapping-rounds", Seed: seed}})
			return
		}
		d, err := t.Dump()
		if err != nil {
			r.Inconclusive("dump: " + err.Error())
			return
		}
		w := witness{Case: caseID{Scenario: "overlapping-rounds", Seed: seed}, Config: strings.Join(rounds[max(0, len(rounds)-6):], " | ")}
		if d.Leader < recorded {
			r.Violation("recorded-leader-index-moved-backwards", fmt.Sprintf("[overlapping rounds] recorded leader index moved backwards from %d to %d after %s", recorded, d.Leader, rounds[len(rounds)-1]), w)
			return
		}
		if d.Leader > uint64(n) {
			r.Violation("follower-state-is-not-leader-state-at-recorded-index", fmt.Sprintf("[overlapping rounds] recorded leader index %d is beyond the leader log (%d entries)", d.Leader, n), w)
			return
		}
		if why := fsmx.DiffContent(d, states[d.Leader]); why != "" {
			r.Violation("follower-state-is-not-leader-state-at-recorded-index", fmt.Sprintf("[overlapping rounds] after %s the follower records leader index %d but %s", rounds[len(rounds)-1], d.Leader, why), w)
			return
		}
		if back > 0 {
			r.Count("overlapping_rounds_applied", 1)
		}
		recorded = d.Leader
		if len(rounds) > 400 {
			r.Inconclusive("overlapping rounds do not make progress")
			return
		}
	}
	r.Eval(1)
}

// breakingReader fails after `left` bytes.
type breakingReader struct {
	r    io.Reader
	left int
}

func (b *breakingReader) Read(p []byte) (int, error) {
	if b.left <= 0 {
		return 0, fmt.Errorf("stream broken (injected)")
	}
	if len(p) > b.left {
		p = p[:b.left]
	}
	n, err := b.r.Read(p)
	b.left -= n
	return n, err
}
