package main

import (
	"context"
	"fmt"
	"reflect"
	"sync/atomic"
	"time"
	"unsafe"

	pb "github.com/jamf/regatta/regattapb"
	"github.com/lni/dragonboat/v4"

	"verifharness/internal/cluster"
	"verifharness/internal/ev"
)

// partition cuts a node host off the network (both directions) or reconnects it: the switch
// dragonboat's own partition tests use (NodeHost.partitioned; compiled into every build, its
// setter exported only under a build tag, hence set through reflection).
func partition(nh *dragonboat.NodeHost, on bool) bool {
	f := reflect.ValueOf(nh).Elem().FieldByName("partitioned")
	if !f.IsValid() || f.Kind() != reflect.Int32 {
		return false
	}
	v := int32(0)
	if on {
		v = 1
	}
	atomic.StoreInt32((*int32)(unsafe.Pointer(f.UnsafeAddr())), v)
	return true
}

// runDeposedLeader: the replica that leads the table is cut off; the other two elect a new leader
// and acknowledge a write; linearizable reads (single and streamed) issued on the cut-off replica
// AFTER that acknowledgement either fail or show the acknowledged write - never the old value,
// however long that replica goes on believing that it leads.
func runDeposedLeader(r *ev.Run, seed int64) {
	// replica 1 runs its table shards with a long election time-out: once it leads a table it takes
	// seconds, not milliseconds, to find out that it has lost the quorum (this widens the window in
	// which a deposed leader still believes to lead, it does not create it)
	c, err := cluster.Start(cluster.Opts{Nodes: 3, RTT: 10, ElectionRTT: 20, TableElectionRTT: map[uint64]uint64{1: 400}})
	if err != nil {
		r.Inconclusive("cluster start: " + err.Error())
		return
	}
	defer c.Close()
	if _, err := c.CreateTable("t"); err != nil {
		r.Inconclusive("create table: " + err.Error())
		return
	}
	tab, _ := c.Nodes[0].Engine.GetTable("t")
	leaderOf := func(i int) uint64 {
		id, _, ok, err := c.Nodes[i].Engine.GetLeaderID(tab.ClusterID)
		if err != nil || !ok {
			return 0
		}
		return id
	}
	put := func(i int, val string, d time.Duration) (*pb.PutResponse, error) {
		ctx, cancel := context.WithTimeout(context.Background(), d)
		defer cancel()
		return c.Nodes[i].Engine.Put(ctx, &pb.PutRequest{Table: []byte("t"), Key: []byte("key"), Value: []byte(val)})
	}
	for trial, nt := 0, r.Pick(3, 12); trial < nt; trial++ {
		victim := 0 // the replica with the long election time-out
		// make the victim the leader, known to all
		ok := false
		for a := 0; a < 150 && !ok; a++ {
			if leaderOf(0) == uint64(victim+1) && leaderOf(1) == uint64(victim+1) && leaderOf(2) == uint64(victim+1) {
				ok = true
				break
			}
			if l := leaderOf((victim + 1) % 3); l != 0 && l != uint64(victim+1) {
				_ = c.Nodes[l-1].Engine.RequestLeaderTransfer(tab.ClusterID, uint64(victim+1))
			}
			time.Sleep(200 * time.Millisecond)
		}
		if !ok {
			r.Inconclusive(fmt.Sprintf("[deposed-leader] replica %d did not become the table leader", victim+1))
			continue
		}
		old := fmt.Sprintf("old-%d", trial)
		if _, err := put(victim, old, 5*time.Second); err != nil {
			r.Inconclusive("[deposed-leader] initial write: " + err.Error())
			continue
		}
		if !partition(c.Nodes[victim].Engine.NodeHost, true) {
			r.Inconclusive("[deposed-leader] this dragonboat build has no partition switch")
			return
		}
		newV := fmt.Sprintf("new-%d", trial)
		other := (victim + 1) % 3
		var acked *pb.PutResponse
		for a := 0; a < 400 && acked == nil; a++ {
			if resp, err := put(other, newV, 500*time.Millisecond); err == nil {
				acked = resp
			} else {
				time.Sleep(20 * time.Millisecond)
			}
		}
		if acked == nil {
			partition(c.Nodes[victim].Engine.NodeHost, false)
			r.Inconclusive("[deposed-leader] the majority side did not acknowledge a write within bounds")
			continue
		}
		believed := leaderOf(victim) == uint64(victim+1)
		if believed {
			r.Count("deposed_leader_trials_where_it_still_believed_to_lead_at_the_acknowledgement", 1)
		}
		// reads started after the acknowledgement, on the cut-off replica
		bad := ""
		for k := 0; k < 6 && bad == ""; k++ {
			ctx, cancel := context.WithTimeout(context.Background(), 400*time.Millisecond)
			if k%2 == 0 {
				resp, err := c.Nodes[victim].Engine.Range(ctx, &pb.RangeRequest{Table: []byte("t"), Key: []byte("key"), Linearizable: true})
				if err == nil {
					r.Count("linearizable_reads_answered_by_a_cut_off_replica", 1)
					if len(resp.Kvs) != 1 || string(resp.Kvs[0].Value) != newV {
						bad = fmt.Sprintf("linearizable Range on the cut-off replica %d (believes the leader is %d) returned %q; the write of %q had been acknowledged with revision %d by replica %d before the read started", victim+1, leaderOf(victim), kvString(resp.Kvs), newV, acked.Header.Revision, other+1)
					}
				} else {
					r.Count("linearizable_reads_refused_by_a_cut_off_replica", 1)
				}
			} else {
				seq, err := c.Nodes[victim].Engine.IterateRange(ctx, &pb.RangeRequest{Table: []byte("t"), Key: []byte("key"), Linearizable: true})
				if err == nil {
					var got []*pb.KeyValue
					seq(func(m *pb.RangeResponse) bool { got = append(got, m.Kvs...); return true })
					r.Count("linearizable_reads_answered_by_a_cut_off_replica", 1)
					if len(got) != 1 || string(got[0].Value) != newV {
						bad = fmt.Sprintf("linearizable IterateRange on the cut-off replica %d (believes the leader is %d) returned %q; the write of %q had been acknowledged with revision %d by replica %d before the read started", victim+1, leaderOf(victim), kvString(got), newV, acked.Header.Revision, other+1)
					}
				} else {
					r.Count("linearizable_reads_refused_by_a_cut_off_replica", 1)
				}
			}
			cancel()
		}
		partition(c.Nodes[victim].Engine.NodeHost, false)
		if bad != "" {
			r.Violation("linearizable-read-misses-acknowledged-write", "[deposed leader] "+bad, witness{RunSeed: seed, Profile: "deposed-leader", What: bad})
			return
		}
		r.Count("deposed_leader_trials", 1)
		r.Eval(1)
		// let the cluster heal before the next trial
		for a := 0; a < 100; a++ {
			if l := leaderOf(victim); l != 0 && l == leaderOf(other) {
				break
			}
			time.Sleep(100 * time.Millisecond)
		}
	}
}

func kvString(kvs []*pb.KeyValue) string {
	if len(kvs) == 0 {
		return "<absent>"
	}
	return string(kvs[0].Value)
}
