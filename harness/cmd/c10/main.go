// C10 — revisions follow commit order; linearizable reads see all acknowledged writes.
//
// A real 3-node in-process cluster (dragonboat over loopback), one table, a handful of keys,
// 6-12 client goroutines spread over the nodes. One replica is made to lag by stalling its
// apply path (AppliedIndexListener). Every call is recorded at the client boundary (call event
// before, return event after, one atomic counter) and the history is judged offline:
//
//	(1) acknowledged mutations carry distinct non-zero revisions consistent with real time;
//	(2) replaying the mutations in revision order through the reference model explains every
//	    write response;
//	(3) a linearizable read / read-only txn equals the state after some revision between the
//	    newest write acknowledged before it started and the newest write started before it ended;
//	(4) a serializable read equals the state after SOME revision up to that bound (never a state
//	    that did not exist);
//	(5) second opinion: single-key put / delete / linearizable get on two register keys that no
//	    transaction or range delete touches are checked with porcupine.
package main

import (
	"context"
	"encoding/json"
	"fmt"
	"math/rand"
	"os"
	"sort"
	"strings"
	"sync"
	"sync/atomic"
	"time"

	"github.com/anishathalye/porcupine"
	pb "github.com/jamf/regatta/regattapb"

	"verifharness/internal/cluster"
	"verifharness/internal/ev"
	"verifharness/internal/gen"
	"verifharness/internal/judge"
	"verifharness/internal/model"
	"verifharness/internal/racelog"
)

type op struct {
	Client int    `json:"client"`
	Node   int    `json:"node"`
	Kind   string `json:"kind"` // put del delrange txn rotxn range
	Call   int64  `json:"call"`
	Ret    int64  `json:"ret"`
	Lin    bool   `json:"linearizable,omitempty"`
	Err    string `json:"err,omitempty"`
	Rev    uint64 `json:"rev,omitempty"`
	Desc   string `json:"desc"`

	put    *pb.PutRequest
	del    *pb.DeleteRangeRequest
	txn    *pb.TxnRequest
	rng    *pb.RangeRequest
	putR   *pb.PutResponse
	delR   *pb.DeleteRangeResponse
	txnR   *pb.TxnResponse
	rngR   *pb.RangeResponse
	behind bool
}

type witness struct {
	RunSeed int64    `json:"run_seed"`
	Profile string   `json:"profile"`
	Ops     []string `json:"history_excerpt"`
	What    string   `json:"what"`
}

var mapKeys = [][]byte{[]byte("a"), []byte("b"), []byte("c"), []byte("d")}
var regKeys = [][]byte{[]byte("r1"), []byte("r2")}

func main() {
	r := ev.Start("C10", "exploration")
	r.Supervise() // a real engine runs in-process: its death is an outcome, observed by a supervising parent
	r.Rule("concurrent client histories on a real 3-node cluster (4 map keys touched by puts, deletes, bounded range deletes and transactions incl. empty-branch and read-only ones; 2 register keys touched only by single-key ops), " +
		"node 3 lagging through a stalled apply path; each run = one recorded history judged offline. Non-trivial: every linearizable read / read-only txn served by the lagging node while it was behind the newest acknowledged write (distinct by run and call number), and every run with >=50 of them plus >=20 empty-branch transactions. " +
		"Runs containing an ambiguous (failed / timed out) write are discarded as inconclusive")
	r.Assume("no client-visible failures are injected: a write that ends in an error makes the whole run inconclusive rather than being guessed at",
		"history recorded at the engine API boundary (the same calls the gRPC KV service makes)")
	if r.Replay != "" {
		var w witness
		if _, err := r.ReadReplay(&w); err != nil {
			fmt.Fprintln(os.Stderr, "replay:", err)
			os.Exit(2)
		}
		if w.Profile == "deposed-leader" {
			runDeposedLeader(r, w.RunSeed)
			r.Finish()
		}
		for i := 0; i < 5 && r.Violations() == 0; i++ {
			runOne(r, w.RunSeed, w.Profile)
		}
		r.Finish()
	}
	profiles := []string{"lag", "lag", "lag+transfer", "heavy-lag"}
	n := r.Pick(2, 24)
	for i := 0; i < n; i++ {
		p := profiles[i%len(profiles)]
		if !r.Thorough() {
			p = "lag"
		}
		runOne(r, r.Seed*1_000_003+int64(i), p)
	}
	runDeposedLeader(r, r.Seed*2_000_003)
	r.FloorCount("deposed_leader_trials", int64(r.Pick(2, 8)))
	r.FloorCount("deposed_leader_trials_where_it_still_believed_to_lead_at_the_acknowledgement", int64(r.Pick(1, 4)))
	if rep := racelog.Scan(); rep != nil {
		for sig, n := range rep.Regatta {
			r.Note(fmt.Sprintf("race report with regatta frames (recorded, not deciding for C10): %s x%d", sig, n))
		}
		r.Extra("race_reports_regatta", len(rep.Regatta))
		r.Extra("race_reports_third_party", rep.ThirdParty)
	}
	r.FloorCount("conclusive_runs", int64(r.Pick(1, 12)))
	r.FloorCount("acked_mutations", int64(r.Pick(1000, 15000)))
	r.FloorCount("linearizable_reads_judged", int64(r.Pick(300, 5000)))
	r.FloorCount("linearizable_reads_on_lagging_node_while_behind", int64(r.Pick(50, 800)))
	r.FloorCount("big_streams_of_several_messages", int64(r.Pick(40, 400)))
	r.FloorCount("probe_readonly_txns", int64(r.Pick(2000, 20000)))
	r.FloorCount("empty_branch_txns_acked", int64(r.Pick(20, 300)))
	r.FloorNontrivial(int64(r.Pick(50, 800)))
	r.Finish()
}

func runOne(r *ev.Run, seed int64, profile string) {
	var applied [4]atomic.Uint64
	var maxAcked atomic.Uint64
	lagRng := rand.New(rand.NewSource(seed ^ 0x1a9))
	var lagMu sync.Mutex
	var stopLag atomic.Bool
	c, err := cluster.Start(cluster.Opts{Nodes: 3, RTT: 10, ElectionRTT: 20, Listener: func(node uint64, table string, rev uint64) {
		if table != "t" {
			return
		}
		if node == 3 && !stopLag.Load() {
			lagMu.Lock()
			k := lagRng.Intn(100)
			lagMu.Unlock()
			d := time.Duration(k%30) * time.Millisecond
			if profile == "heavy-lag" {
				d *= 3
			}
			if k == 99 {
				d = 400 * time.Millisecond
			}
			time.Sleep(d)
		}
		applied[node].Store(rev)
	}})
	if err != nil {
		r.Inconclusive("cluster start: " + err.Error())
		return
	}
	defer c.Close()
	defer stopLag.Store(true)
	if _, err := c.CreateTable("t"); err != nil {
		r.Inconclusive("create table: " + err.Error())
		return
	}
	tab, _ := c.Nodes[0].Engine.GetTable("t")
	// the lagging replica must be a follower of the table shard: move the leader to node 1
	for i := 0; i < 100; i++ {
		if id, _, ok, _ := c.Nodes[0].Engine.GetLeaderID(tab.ClusterID); ok && id != 3 {
			break
		}
		_ = c.Nodes[0].Engine.RequestLeaderTransfer(tab.ClusterID, 1)
		time.Sleep(50 * time.Millisecond)
	}
	if id, _, ok, _ := c.Nodes[0].Engine.GetLeaderID(tab.ClusterID); !ok || id == 3 {
		r.Inconclusive("could not move the table leader away from the lagging node")
		return
	}

	var clock atomic.Int64
	var mu sync.Mutex
	var hist []*op
	var ambiguous atomic.Bool
	nClients := 9
	perClient := r.Pick(170, 260)
	var wg sync.WaitGroup
	stopTransfer := make(chan struct{})
	if profile == "lag+transfer" {
		go func() {
			t := time.NewTicker(700 * time.Millisecond)
			defer t.Stop()
			target := uint64(1)
			for {
				select {
				case <-stopTransfer:
					return
				case <-t.C:
					target = target%2 + 1 // between nodes 1 and 2 (node 3 lags)
					_ = c.Nodes[0].Engine.RequestLeaderTransfer(tab.ClusterID, target)
				}
			}
		}()
	}
	// static pairs zz/<n>=x (never modified afterwards): a range predicate over them takes a while,
	// which puts time between the reads of one read-only transaction
	for b := 0; b < 4; b++ {
		req := &pb.TxnRequest{Table: []byte("t")}
		for i := 0; i < 500; i++ {
			req.Success = append(req.Success, &pb.RequestOp{Request: &pb.RequestOp_RequestPut{RequestPut: &pb.RequestOp_Put{Key: []byte(fmt.Sprintf("zz/%04d", b*500+i)), Value: []byte("x")}}})
		}
		o := &op{Client: 100, Node: 1, Kind: "txn", txn: req}
		ctx, cancel := context.WithTimeout(context.Background(), 10*time.Second)
		o.Call = clock.Add(1)
		resp, err := c.Nodes[0].Engine.Txn(ctx, req)
		o.Ret = clock.Add(1)
		cancel()
		if err != nil {
			r.Inconclusive("setup write: " + err.Error())
			return
		}
		o.txnR, o.Rev = resp, resp.GetHeader().GetRevision()
		o.Desc = fmt.Sprintf("[%d..%d] setup TXN{500 x put zz/<n>=x} rev=%d", o.Call, o.Ret, o.Rev)
		hist = append(hist, o)
		maxAcked.Store(o.Rev)
	}
	var valCtr atomic.Int64
	// bursts: every 20th operation of a writer is an empty-branch transaction issued together with
	// the other writers' (a barrier with a 300 ms timeout), so that several of them are committed
	// and applied in one apply call
	var (
		bmu      sync.Mutex
		bwaiting int
		brelease = make(chan struct{})
	)
	barrier := func(n int) {
		bmu.Lock()
		bwaiting++
		ch := brelease
		if bwaiting >= n {
			bwaiting = 0
			brelease = make(chan struct{})
			close(ch)
			bmu.Unlock()
			return
		}
		bmu.Unlock()
		select {
		case <-ch:
		case <-time.After(300 * time.Millisecond):
			bmu.Lock()
			if ch == brelease {
				bwaiting = 0
				brelease = make(chan struct{})
				close(ch)
			}
			bmu.Unlock()
		}
	}
	// probe readers (outside the judged history, with an oracle of their own): read-only transactions
	// {if value(k) > pivot [and a slow predicate over the static pairs] then range(k) else range(k)}
	// on every node; whatever state such a transaction reads, its 'succeeded' flag and the pair it
	// returns describe ONE state
	var stopProbe atomic.Bool
	var pwg sync.WaitGroup
	var tear atomic.Value
	for p := 0; p < 3; p++ {
		pwg.Add(1)
		go func(p int) {
			defer pwg.Done()
			g := gen.New(seed*977 + int64(p))
			e := c.Nodes[p].Engine
			for n := 0; !stopProbe.Load() && tear.Load() == nil; n++ {
				k := mapKeys[g.R.Intn(len(mapKeys))]
				cmp := &pb.Compare{Key: k, Result: []pb.Compare_CompareResult{pb.Compare_GREATER, pb.Compare_LESS}[g.R.Intn(2)], Target: pb.Compare_VALUE,
					TargetUnion: &pb.Compare_Value{Value: []byte(fmt.Sprintf("c%d", 2+g.R.Intn(6)))}}
				req := &pb.TxnRequest{Table: []byte("t"), Compare: []*pb.Compare{cmp}}
				if g.R.Intn(3) > 0 {
					req.Compare = append(req.Compare, &pb.Compare{Key: []byte("zz/"), RangeEnd: []byte("zz0"), Result: pb.Compare_EQUAL, Target: pb.Compare_VALUE, TargetUnion: &pb.Compare_Value{Value: []byte("x")}})
				}
				rd := &pb.RequestOp{Request: &pb.RequestOp_RequestRange{RequestRange: &pb.RequestOp_Range{Key: k}}}
				req.Success, req.Failure = []*pb.RequestOp{rd}, []*pb.RequestOp{rd}
				if g.R.Intn(4) == 0 {
					req.Failure = nil
				}
				ctx, cancel := context.WithTimeout(context.Background(), 8*time.Second)
				resp, err := e.Txn(ctx, req)
				cancel()
				if err != nil {
					r.Count("probe_txns_failed", 1)
					time.Sleep(5 * time.Millisecond)
					continue
				}
				r.Count("probe_readonly_txns", 1)
				if len(resp.Responses) == 0 {
					continue // empty failure branch
				}
				seen := model.NewTable()
				seen.M["zz/0000"] = []byte("x") // the static pairs all hold x
				for _, kv := range resp.Responses[0].GetResponseRange().GetKvs() {
					seen.M[string(kv.Key)] = kv.Value
				}
				if seen.EvalCompare(req.Compare) != resp.Succeeded {
					tear.Store(fmt.Sprintf("read-only transaction on node %d {if value(%q) %v %q%s then range(%q) else range(%q)}: succeeded=%v, yet its executed branch read %q=%q (present=%v): predicate and operation saw different states",
						p+1, k, cmp.Result, cmp.GetValue(), map[bool]string{true: " and all zz/* == x", false: ""}[len(req.Compare) > 1], k, k, resp.Succeeded, k, seen.M[string(k)], seen.M[string(k)] != nil))
					return
				}
				time.Sleep(time.Duration(g.R.Intn(3)) * time.Millisecond)
			}
		}(p)
	}
	// streamed reads larger than one message (table "big") taken on every node while its two marker
	// pairs are being rewritten: the pairs of one stream are one state of the table, whatever state
	bigOK := false
	if _, err := c.CreateTable("big"); err == nil {
		bigOK = true
	}
	// 36 static pairs of 128 KiB between two small markers that one transaction always rewrites together
	mkBig := func(gen int) *pb.TxnRequest {
		tx := &pb.TxnRequest{Table: []byte("big")}
		for _, k := range []string{"a-marker", "zz-marker"} {
			tx.Success = append(tx.Success, &pb.RequestOp{Request: &pb.RequestOp_RequestPut{RequestPut: &pb.RequestOp_Put{Key: []byte(k), Value: []byte(fmt.Sprintf("gen%06d|", gen))}}})
		}
		return tx
	}
	for i := 0; i < 36 && bigOK; i++ {
		v := make([]byte, 128*1024)
		copy(v, "static..|")
		ctx, cancel := context.WithTimeout(context.Background(), 20*time.Second)
		_, err := c.Nodes[0].Engine.Put(ctx, &pb.PutRequest{Table: []byte("big"), Key: []byte(fmt.Sprintf("m%02d", i)), Value: v})
		cancel()
		bigOK = err == nil
	}
	if bigOK {
		ctx, cancel := context.WithTimeout(context.Background(), 20*time.Second)
		_, err := c.Nodes[0].Engine.Txn(ctx, mkBig(0))
		cancel()
		bigOK = err == nil
	}
	if bigOK {
		pwg.Add(1)
		go func() {
			defer pwg.Done()
			for gen := 1; !stopProbe.Load() && tear.Load() == nil; gen++ {
				ctx, cancel := context.WithTimeout(context.Background(), 20*time.Second)
				_, err := c.Nodes[gen%2].Engine.Txn(ctx, mkBig(gen))
				cancel()
				if err == nil {
					r.Count("big_table_rewrites", 1)
				} else {
					r.Count("big_table_rewrites_failed: "+err.Error(), 1)
				}
				time.Sleep(40 * time.Millisecond)
			}
		}()
		for p := 0; p < 2; p++ {
			pwg.Add(1)
			go func(p int) {
				defer pwg.Done()
				for n := 0; !stopProbe.Load() && tear.Load() == nil; n++ {
					node := (p + n) % 3
					ctx, cancel := context.WithTimeout(context.Background(), 20*time.Second)
					seq, err := c.Nodes[node].Engine.IterateRange(ctx, &pb.RangeRequest{Table: []byte("big"), Key: []byte{0}, RangeEnd: []byte{0}, Linearizable: n%2 == 0})
					if err != nil {
						cancel()
						time.Sleep(10 * time.Millisecond)
						continue
					}
					var gens []string
					msgs := 0
					seq(func(m *pb.RangeResponse) bool {
						msgs++
						for _, kv := range m.Kvs {
							gens = append(gens, fmt.Sprintf("%s=%s", kv.Key, kv.Value[:9]))
						}
						time.Sleep(time.Duration(5+n%20) * time.Millisecond) // a consumer that takes its time
						return true
					})
					cancel()
					if len(gens) != 38 {
						continue // cut short by the deadline or an election: not judged
					}
					r.Count("big_streams_read", 1)
					if msgs >= 2 {
						r.Count("big_streams_of_several_messages", 1)
					}
					first, last := gens[0], gens[37]
					if first[len("a-marker="):] != last[len("zz-marker="):] {
						tear.Store(fmt.Sprintf("streamed read of table big on node %d (%d messages, 4.5 MiB) returned %s in its first and %s in its last message: the two markers are always written together by one transaction, no state of the table holds this combination", node+1, msgs, first, last))
						return
					}
				}
			}(p)
		}
	}
	for cl := 0; cl < nClients; cl++ {
		wg.Add(1)
		go func(cl int) {
			defer wg.Done()
			g := gen.New(seed*131 + int64(cl))
			home := cl % 2 // writers live on the two non-lagging nodes; reads go anywhere
			for i := 0; i < perClient && !ambiguous.Load(); i++ {
				node := home
				e := c.Nodes[node].Engine
				o := &op{Client: cl, Node: node + 1}
				val := []byte(fmt.Sprintf("c%d-%d", cl, valCtr.Add(1)))
				key := mapKeys[g.R.Intn(len(mapKeys))]
				ctx, cancel := context.WithTimeout(context.Background(), 8*time.Second)
				burst := i%20 == 19
				switch k := g.R.Intn(100); {
				case burst:
					// the predicate fails (the key never exists), the failure branch is empty
					o.Kind, o.txn = "txn", &pb.TxnRequest{Table: []byte("t"),
						Compare: []*pb.Compare{{Key: []byte("never-written")}},
						Success: []*pb.RequestOp{{Request: &pb.RequestOp_RequestPut{RequestPut: &pb.RequestOp_Put{Key: key, Value: val}}}}}
					if g.R.Intn(2) == 0 { // or: the predicate holds and the success branch is empty
						o.txn.Compare[0].Result = pb.Compare_NOT_EQUAL
						o.txn.Compare[0].TargetUnion = &pb.Compare_Value{Value: []byte("x")}
						o.txn.Success, o.txn.Failure = nil, o.txn.Success
					}
				case k < 14:
					o.Kind, o.put = "put", &pb.PutRequest{Table: []byte("t"), Key: key, Value: val, PrevKv: g.R.Intn(2) == 0}
				case k < 22:
					o.Kind, o.put = "put", &pb.PutRequest{Table: []byte("t"), Key: regKeys[g.R.Intn(2)], Value: val, PrevKv: g.R.Intn(2) == 0}
				case k < 27:
					o.Kind, o.del = "del", &pb.DeleteRangeRequest{Table: []byte("t"), Key: key, PrevKv: g.R.Intn(2) == 0, Count: g.R.Intn(2) == 0}
				case k < 31:
					o.Kind, o.del = "del", &pb.DeleteRangeRequest{Table: []byte("t"), Key: regKeys[g.R.Intn(2)], PrevKv: true, Count: true}
				case k < 35:
					lo := mapKeys[g.R.Intn(len(mapKeys))]
					o.Kind, o.del = "delrange", &pb.DeleteRangeRequest{Table: []byte("t"), Key: lo, RangeEnd: []byte("e"), PrevKv: g.R.Intn(2) == 0, Count: true}
				case k < 50:
					o.Kind, o.txn = "txn", genTxn(g, val, false)
				case k < 58:
					o.Kind, o.txn = "rotxn", genTxn(g, val, true)
				default:
					o.Kind = "range"
					o.Lin = g.R.Intn(3) > 0
					rq := &pb.RangeRequest{Table: []byte("t"), Linearizable: o.Lin}
					switch g.R.Intn(3) {
					case 0:
						rq.Key, rq.RangeEnd = []byte{0}, []byte("zz") // everything but the static pairs
					case 1:
						rq.Key = regKeys[g.R.Intn(2)]
					default:
						rq.Key = key
					}
					o.rng = rq
				}
				if o.Kind == "range" || o.Kind == "rotxn" {
					// a read right after this client's own acknowledged write, on another replica:
					// half of them on the lagging one
					if g.R.Intn(2) == 0 {
						node = 2
					} else {
						node = g.R.Intn(3)
					}
					e = c.Nodes[node].Engine
					o.Node = node + 1
				} else if cl == nClients-1 {
					// one writer proposes through the lagging node
					node = 2
					e = c.Nodes[node].Engine
					o.Node = 3
				}
				if o.Kind == "range" || o.Kind == "rotxn" {
					a, mx := applied[node+1].Load(), maxAcked.Load()
					o.behind = a < mx
					if node == 2 {
						r.Count("lag_samples_node3", 1)
						if a < mx {
							r.Count("lag_sum_node3", int64(mx-a))
							r.Count("lag_samples_node3_behind_acked", 1)
						}
						if l := max(applied[1].Load(), applied[2].Load()); a < l {
							r.Count("lag_samples_node3_behind_other_replicas", 1)
						}
					}
				}
				if burst {
					barrier(nClients)
					r.Count("empty_branch_txns_issued_in_bursts", 1)
				}
				o.Call = clock.Add(1)
				var err error
				switch o.Kind {
				case "put":
					o.putR, err = e.Put(ctx, o.put)
					if err == nil {
						o.Rev = o.putR.GetHeader().GetRevision()
					}
				case "del", "delrange":
					o.delR, err = e.Delete(ctx, o.del)
					if err == nil {
						o.Rev = o.delR.GetHeader().GetRevision()
					}
				case "txn", "rotxn":
					o.txnR, err = e.Txn(ctx, o.txn)
					if err == nil && o.Kind == "txn" {
						o.Rev = o.txnR.GetHeader().GetRevision()
					}
				case "range":
					o.rngR, err = e.Range(ctx, o.rng)
				}
				o.Ret = clock.Add(1)
				cancel()
				if err != nil {
					o.Err = err.Error()
					if o.Kind != "range" && o.Kind != "rotxn" {
						ambiguous.Store(true)
					}
				} else if o.Rev > 0 {
					for {
						cur := maxAcked.Load()
						if o.Rev <= cur || maxAcked.CompareAndSwap(cur, o.Rev) {
							break
						}
					}
				}
				o.Desc = describe(o)
				mu.Lock()
				hist = append(hist, o)
				mu.Unlock()
			}
		}(cl)
	}
	wg.Wait()
	stopProbe.Store(true)
	pwg.Wait()
	close(stopTransfer)
	stopLag.Store(true)
	if v := tear.Load(); v != nil {
		sig := "readonly-transaction-reads-several-states"
		if strings.HasPrefix(v.(string), "streamed read") {
			sig = "streamed-read-mixes-several-states"
		}
		r.Violation(sig, v.(string), witness{RunSeed: seed, Profile: profile, What: v.(string)})
	}
	r.Count("ops_recorded", int64(len(hist)))
	if ambiguous.Load() {
		var e string
		for _, o := range hist {
			if o.Err != "" && o.Kind != "range" && o.Kind != "rotxn" {
				e = o.Desc + ": " + o.Err
			}
		}
		r.Inconclusive("run with an ambiguous write discarded (" + e + ")")
		r.Count("runs_discarded_ambiguous_write", 1)
		return
	}
	judgeHistory(r, seed, profile, hist)
}

func genTxn(g *gen.G, val []byte, readOnly bool) *pb.TxnRequest {
	t := &pb.TxnRequest{Table: []byte("t")}
	for i, n := 0, g.R.Intn(3); i < n; i++ {
		c := &pb.Compare{Key: mapKeys[g.R.Intn(len(mapKeys))], Result: pb.Compare_CompareResult(g.R.Intn(4))}
		if g.R.Intn(2) == 0 {
			c.TargetUnion = &pb.Compare_Value{Value: []byte(fmt.Sprintf("c%d", g.R.Intn(9)))}
		}
		t.Compare = append(t.Compare, c)
		if readOnly && i == 0 && g.R.Intn(2) == 0 {
			t.Compare = append(t.Compare, &pb.Compare{Key: []byte("zz/"), RangeEnd: []byte("zz0"), Result: pb.Compare_EQUAL, Target: pb.Compare_VALUE, TargetUnion: &pb.Compare_Value{Value: []byte("x")}})
		}
	}
	mk := func() *pb.RequestOp {
		k := mapKeys[g.R.Intn(len(mapKeys))]
		switch x := g.R.Intn(3); {
		case readOnly || x == 0:
			rq := &pb.RequestOp_Range{Key: k}
			if g.R.Intn(2) == 0 {
				rq.Key, rq.RangeEnd = []byte("a"), []byte("e")
			}
			return &pb.RequestOp{Request: &pb.RequestOp_RequestRange{RequestRange: rq}}
		case x == 1:
			return &pb.RequestOp{Request: &pb.RequestOp_RequestPut{RequestPut: &pb.RequestOp_Put{Key: k, Value: val, PrevKv: true}}}
		default:
			return &pb.RequestOp{Request: &pb.RequestOp_RequestDeleteRange{RequestDeleteRange: &pb.RequestOp_DeleteRange{Key: k, PrevKv: true, Count: true}}}
		}
	}
	// one branch is frequently empty: the transaction then performs no operation
	ns, nf := g.R.Intn(3), g.R.Intn(3)
	if !readOnly && g.R.Intn(3) == 0 {
		if g.R.Intn(2) == 0 {
			ns = 0
		} else {
			nf = 0
		}
	}
	if !readOnly && ns+nf == 0 {
		ns = 1
	}
	for i := 0; i < ns; i++ {
		t.Success = append(t.Success, mk())
	}
	for i := 0; i < nf; i++ {
		t.Failure = append(t.Failure, mk())
	}
	if !readOnly && t.IsReadonly() {
		// make sure a "txn" really goes through the log
		t.Failure = append(t.Failure, &pb.RequestOp{Request: &pb.RequestOp_RequestPut{RequestPut: &pb.RequestOp_Put{Key: mapKeys[0], Value: val}}})
		if g.R.Intn(2) == 0 {
			t.Success, t.Failure = t.Failure, t.Success
		}
	}
	return t
}

func describe(o *op) string {
	s := fmt.Sprintf("[%d..%d] c%d@n%d ", o.Call, o.Ret, o.Client, o.Node)
	switch o.Kind {
	case "put":
		s += fmt.Sprintf("Put(%s=%s) rev=%d", o.put.Key, o.put.Value, o.Rev)
	case "del", "delrange":
		s += fmt.Sprintf("Delete(%s end=%q) rev=%d", o.del.Key, o.del.RangeEnd, o.Rev)
	case "txn", "rotxn":
		s += gen.DescribeTxn(&pb.Txn{Compare: o.txn.Compare, Success: o.txn.Success, Failure: o.txn.Failure}) + fmt.Sprintf(" rev=%d", o.Rev)
	case "range":
		s += fmt.Sprintf("Range(%q end=%q lin=%v)", o.rng.Key, o.rng.RangeEnd, o.Lin)
		if o.rngR != nil {
			s += fmt.Sprintf(" -> %d kvs", len(o.rngR.Kvs))
		}
	}
	return s
}

func toCommand(o *op) *pb.Command {
	switch o.Kind {
	case "put":
		return &pb.Command{Type: pb.Command_PUT, Kv: &pb.KeyValue{Key: o.put.Key, Value: o.put.Value}, PrevKvs: o.put.PrevKv}
	case "del", "delrange":
		return &pb.Command{Type: pb.Command_DELETE, Kv: &pb.KeyValue{Key: o.del.Key}, RangeEnd: o.del.RangeEnd, PrevKvs: o.del.PrevKv, Count: o.del.Count}
	case "txn":
		return &pb.Command{Type: pb.Command_TXN, Txn: &pb.Txn{Compare: o.txn.Compare, Success: o.txn.Success, Failure: o.txn.Failure}}
	}
	return nil
}

func excerpt(hist []*op, around int64) []string {
	var out []string
	for _, o := range hist {
		if o.Ret >= around-40 && o.Call <= around+10 {
			out = append(out, o.Desc)
		}
	}
	if len(out) > 60 {
		out = out[len(out)-60:]
	}
	return out
}

func judgeHistory(r *ev.Run, seed int64, profile string, hist []*op) {
	sort.Slice(hist, func(i, j int) bool { return hist[i].Call < hist[j].Call })
	fail := func(sig, what string, at int64) {
		r.Violation(sig, what, witness{RunSeed: seed, Profile: profile, Ops: excerpt(hist, at), What: what})
	}
	var muts []*op
	for _, o := range hist {
		if o.Err != "" {
			continue
		}
		switch o.Kind {
		case "put", "del", "delrange", "txn":
			if o.Rev == 0 {
				branch := ""
				if o.Kind == "txn" && len(o.txnR.Responses) == 0 {
					branch = " (transaction whose executed branch is empty)"
				}
				fail("acked-mutation-revision-zero", "acknowledged mutation reports revision 0"+branch+": "+o.Desc, o.Call)
				return
			}
			muts = append(muts, o)
		}
	}
	// (1) distinct + real-time order
	sort.Slice(muts, func(i, j int) bool { return muts[i].Rev < muts[j].Rev })
	for i := 1; i < len(muts); i++ {
		if muts[i].Rev == muts[i-1].Rev {
			fail("two-mutations-share-a-revision", fmt.Sprintf("%s and %s", muts[i-1].Desc, muts[i].Desc), muts[i].Call)
			return
		}
	}
	// real-time: if A returned before B was called then rev A < rev B. Check with a sweep.
	byCall := append([]*op{}, muts...)
	sort.Slice(byCall, func(i, j int) bool { return byCall[i].Call < byCall[j].Call })
	byRet := append([]*op{}, muts...)
	sort.Slice(byRet, func(i, j int) bool { return byRet[i].Ret < byRet[j].Ret })
	var maxRevReturned uint64
	var maxOp *op
	j := 0
	for _, b := range byCall {
		for j < len(byRet) && byRet[j].Ret < b.Call {
			if byRet[j].Rev > maxRevReturned {
				maxRevReturned, maxOp = byRet[j].Rev, byRet[j]
			}
			j++
		}
		if maxOp != nil && b.Rev < maxRevReturned {
			fail("revision-order-contradicts-real-time", fmt.Sprintf("%s had returned before %s was called, yet its revision is larger", maxOp.Desc, b.Desc), b.Call)
			return
		}
	}
	// (2) replay in revision order
	m := model.NewTable()
	states := []st{{0, m.Clone()}}
	for _, o := range muts {
		exp := m.Apply(o.Rev, toCommand(o))
		var mm *judge.Mismatch
		switch o.Kind {
		case "put":
			if why := judge.Put(exp.Responses[0].Put, &pb.ResponseOp_Put{PrevKv: o.putR.PrevKv}); why != "" {
				mm = &judge.Mismatch{Why: why}
			}
		case "del", "delrange":
			if why, _ := judge.Del(exp.Responses[0].Del, &pb.ResponseOp_DeleteRange{Deleted: o.delR.Deleted, PrevKvs: o.delR.PrevKvs}); why != "" {
				mm = &judge.Mismatch{Why: why}
			}
		case "txn":
			if o.txnR.Succeeded != exp.TxnSucceeded {
				mm = &judge.Mismatch{Why: fmt.Sprintf("succeeded=%v, replay in revision order says %v", o.txnR.Succeeded, exp.TxnSucceeded)}
			} else {
				mm = judge.Responses(exp.Responses, o.txnR.Responses, true)
			}
			if len(exp.Responses) == 0 {
				r.Count("empty_branch_txns_acked", 1)
			}
		}
		if mm != nil {
			fail("revision-order-does-not-explain-response", fmt.Sprintf("%s: %s", o.Desc, mm.Why), o.Call)
			return
		}
		states = append(states, st{o.Rev, m.Clone()})
		r.Count("acked_mutations", 1)
	}
	// (3)(4) reads
	// prefix maxima for bounds
	retSorted := byRet
	callSorted := byCall
	lower := func(call int64) uint64 { // max rev among mutations returned before call
		var mx uint64
		for _, o := range retSorted {
			if o.Ret > call {
				break
			}
			if o.Rev > mx {
				mx = o.Rev
			}
		}
		return mx
	}
	upper := func(ret int64) uint64 { // max rev among mutations called before ret
		var mx uint64
		for _, o := range callSorted {
			if o.Call > ret {
				break
			}
			if o.Rev > mx {
				mx = o.Rev
			}
		}
		return mx
	}
	behindLin := 0
	for _, o := range hist {
		if o.Err != "" || (o.Kind != "range" && o.Kind != "rotxn") {
			continue
		}
		lin := o.Lin || o.Kind == "rotxn"
		lo, hi := uint64(0), upper(o.Ret)
		if lin {
			lo = lower(o.Call)
		}
		ok := false
		var firstWhy string
		for _, s := range states {
			if s.rev > hi {
				break
			}
			// state s is valid for revisions [s.rev, next.rev); it is a candidate if the
			// interval intersects [lo, hi]: s.rev <= hi and next.rev > lo
			if nx := nextRev(states, s.rev); nx <= lo {
				continue
			}
			var why string
			if o.Kind == "range" {
				rq := &pb.RequestOp_Range{Key: o.rng.Key, RangeEnd: o.rng.RangeEnd}
				why, _ = judge.Range(rq, s.state.RangeFull(rq), &pb.ResponseOp_Range{Kvs: o.rngR.Kvs, Count: o.rngR.Count, More: o.rngR.More})
			} else {
				cl := s.state.Clone()
				succ, exp := cl.Txn(o.txn.Compare, o.txn.Success, o.txn.Failure)
				if succ != o.txnR.Succeeded {
					why = "succeeded flag differs"
				} else if mm := judge.Responses(exp, o.txnR.Responses, true); mm != nil {
					why = mm.Why
				}
			}
			if why == "" {
				ok = true
				break
			}
			if firstWhy == "" {
				firstWhy = why
			}
		}
		if !ok {
			if lin {
				sig := "linearizable-read-misses-acknowledged-write"
				if o.Kind == "rotxn" {
					sig = "read-only-txn-misses-acknowledged-write"
				}
				fail(sig, fmt.Sprintf("%s matches no state between revision %d (newest write acknowledged before it started) and %d (newest write started before it ended): e.g. %s", o.Desc, lo, hi, firstWhy), o.Call)
			} else {
				fail("serializable-read-shows-state-that-never-existed", fmt.Sprintf("%s matches no state up to revision %d: e.g. %s", o.Desc, hi, firstWhy), o.Call)
			}
			return
		}
		if lin {
			r.Count("linearizable_reads_judged", 1)
			if o.behind && o.Node == 3 {
				r.Count("linearizable_reads_on_lagging_node_while_behind", 1)
				behindLin++
				r.Nontrivial(fmt.Sprint("lagging-lin-read", seed, o.Call))
			}
		} else {
			r.Count("serializable_reads_judged", 1)
		}
	}
	// (5) porcupine on the register keys
	if res := porcupineCheck(hist); res == porcupine.Illegal {
		fail("register-history-not-linearizable", "porcupine: single-key put/delete/linearizable-get history on a register key is not linearizable", 0)
		return
	} else if res == porcupine.Unknown {
		r.Inconclusive("porcupine timed out")
	} else {
		r.Count("porcupine_histories_ok", 1)
	}
	r.Count("conclusive_runs", 1)
	r.Eval(1)
	empties := 0
	for _, o := range muts {
		if o.Kind == "txn" && len(o.txnR.Responses) == 0 {
			empties++
		}
	}
	if behindLin >= 50 && empties >= 20 {
		r.Nontrivial(fmt.Sprint(seed))
	}
	var sample []string
	for i, o := range hist {
		if i%97 == 0 && len(sample) < 6 {
			sample = append(sample, o.Desc)
		}
	}
	r.Sample(map[string]any{"run_seed": seed, "profile": profile, "ops": len(hist), "mutations": len(muts), "linearizable_reads_on_lagging_node_while_behind": behindLin, "empty_branch_txns": empties, "excerpt": sample})
	_ = json.Marshal
}

type st struct {
	rev   uint64
	state *model.Table
}

func nextRev(states []st, rev uint64) uint64 {
	i := sort.Search(len(states), func(i int) bool { return states[i].rev > rev })
	if i == len(states) {
		return ^uint64(0)
	}
	return states[i].rev
}

type regIn struct {
	Key   string
	Write bool
	Del   bool
	Val   string
}

func porcupineCheck(hist []*op) porcupine.CheckResult {
	var ops []porcupine.Operation
	isReg := func(k []byte) bool { return string(k) == "r1" || string(k) == "r2" }
	for _, o := range hist {
		if o.Err != "" {
			continue
		}
		switch {
		case o.Kind == "put" && isReg(o.put.Key):
			ops = append(ops, porcupine.Operation{ClientId: o.Client, Input: regIn{Key: string(o.put.Key), Write: true, Val: string(o.put.Value)}, Call: o.Call, Output: "", Return: o.Ret})
		case o.Kind == "del" && isReg(o.del.Key):
			ops = append(ops, porcupine.Operation{ClientId: o.Client, Input: regIn{Key: string(o.del.Key), Del: true}, Call: o.Call, Output: "", Return: o.Ret})
		case o.Kind == "range" && o.Lin && o.rng.RangeEnd == nil && isReg(o.rng.Key):
			out := "<absent>"
			if len(o.rngR.Kvs) == 1 {
				out = string(o.rngR.Kvs[0].Value)
			}
			ops = append(ops, porcupine.Operation{ClientId: o.Client, Input: regIn{Key: string(o.rng.Key)}, Call: o.Call, Output: out, Return: o.Ret})
		}
	}
	mdl := porcupine.Model{
		Partition: func(history []porcupine.Operation) [][]porcupine.Operation {
			by := map[string][]porcupine.Operation{}
			for _, o := range history {
				k := o.Input.(regIn).Key
				by[k] = append(by[k], o)
			}
			var out [][]porcupine.Operation
			for _, v := range by {
				out = append(out, v)
			}
			return out
		},
		Init: func() any { return "<absent>" },
		Step: func(state, input, output any) (bool, any) {
			in := input.(regIn)
			switch {
			case in.Write:
				return true, in.Val
			case in.Del:
				return true, "<absent>"
			}
			return output.(string) == state.(string), state
		},
	}
	return porcupine.CheckOperationsTimeout(mdl, ops, 60*time.Second)
}
