// Command regatta is the real regatta binary, built from /repo's working tree through the
// harness module (so that /repo/go.mod is never touched). Same body as /repo/main.go.
package main

import (
	"github.com/jamf/regatta/cmd"
)

func main() {
	cmd.Execute()
}
