// Package racelog reads the race detector's report files (GORACE=log_path=$SCRATCH/race) after a
// workload and classifies the reports: those with at least one github.com/jamf/regatta/ frame
// (de-duplicated by the pair of outermost regatta functions) and third-party-only ones.
package racelog

import (
	"os"
	"path/filepath"
	"regexp"
	"sort"
	"strings"
)

type Report struct {
	Regatta    map[string]int // signature -> count
	ThirdParty int
	Samples    map[string]string
}

var reFn = regexp.MustCompile(`^\s+(github\.com/jamf/regatta/[^\s(]+(?:\([^)]*\))?[^\s(]*)\(`)

// Scan returns nil when no report file exists.
func Scan() *Report {
	dir := os.Getenv("SCRATCH")
	if dir == "" {
		return nil
	}
	files, _ := filepath.Glob(filepath.Join(dir, "race*"))
	if len(files) == 0 {
		return nil
	}
	rep := &Report{Regatta: map[string]int{}, Samples: map[string]string{}}
	for _, f := range files {
		b, err := os.ReadFile(f)
		if err != nil {
			continue
		}
		for _, blk := range strings.Split(string(b), "WARNING: DATA RACE")[1:] {
			if i := strings.Index(blk, "=================="); i >= 0 {
				blk = blk[:i]
			}
			// outermost regatta function of each of the two access stacks
			var outer []string
			for _, stack := range strings.Split(blk, "\n\n") {
				last := ""
				for _, ln := range strings.Split(stack, "\n") {
					if m := reFn.FindStringSubmatch(ln); m != nil {
						last = strings.TrimPrefix(m[1], "github.com/jamf/regatta/")
					}
				}
				if last != "" && (strings.Contains(stack, "Read at") || strings.Contains(stack, "Write at") || strings.Contains(stack, "Previous")) {
					outer = append(outer, last)
				}
			}
			if len(outer) == 0 {
				rep.ThirdParty++
				continue
			}
			sort.Strings(outer)
			sig := "race:" + strings.Join(uniq(outer), "|")
			rep.Regatta[sig]++
			if _, ok := rep.Samples[sig]; !ok {
				if len(blk) > 1500 {
					blk = blk[:1500]
				}
				rep.Samples[sig] = blk
			}
		}
	}
	return rep
}

func uniq(s []string) []string {
	var out []string
	for i, x := range s {
		if i == 0 || x != s[i-1] {
			out = append(out, x)
		}
	}
	return out
}
