// Package ev is the verdict/evidence side of every driver: it counts what a run observed,
// matches violations against /verif/known_findings.json, writes replay witnesses and the
// evidence file, and turns all of that into the exit code the MANIFEST contract asks for.
package ev

import (
	"crypto/sha256"
	"encoding/hex"
	"encoding/json"
	"errors"
	"flag"
	"fmt"
	"os"
	"os/exec"
	"path/filepath"
	"regexp"
	"runtime/pprof"
	"sort"
	"strconv"
	"strings"
	"sync"
	"sync/atomic"
	"time"
)

// Finding is one entry of known_findings.json.
type Finding struct {
	Property  string `json:"property"`
	Signature string `json:"signature"`
	Status    string `json:"status"` // "known" | "fixed"
	Commit    string `json:"commit,omitempty"`
	What      string `json:"what"`
}

type Run struct {
	Prop   string
	Tier   string
	Seed   int64
	Level  string
	Replay string

	mu           sync.Mutex
	start        time.Time
	evals        int64
	nontrivial   map[string]struct{}
	samples      []any
	maxSamples   int
	counters     map[string]int64
	sets         map[string]map[string]struct{}
	rule         string
	assumptions  []string
	violations   int
	knownHits    map[string]int
	inconclusive int64
	notes        []string
	extra        map[string]any
	known        []Finding
	exhaustive   *bool
	floors       []floor
	replayN      int
	progress     atomic.Int64 // unix nanos of the last observed activity
}

type floor struct {
	name string
	min  int64
	get  func() int64
}

// outDir is where evidence/ and replays/ are written (VERIF_OUT, default = verifDir).
func outDir() string {
	if d := os.Getenv("VERIF_OUT"); d != "" {
		return d
	}
	return verifDir()
}

func verifDir() string {
	if d := os.Getenv("VERIF_DIR"); d != "" {
		return d
	}
	return "/verif"
}

// Start parses the common flags (--tier, --seed, --replay) and loads known findings.
func Start(prop, level string) *Run {
	tier := flag.String("tier", envOr("VERIF_TIER", "quick"), "quick|thorough")
	seed := flag.Int64("seed", envInt("VERIF_SEED", 1), "PRNG seed")
	replay := flag.String("replay", "", "replay file")
	if !flag.Parsed() {
		flag.Parse()
	}
	r := &Run{
		Prop: prop, Tier: *tier, Seed: *seed, Level: level, Replay: *replay,
		start:      time.Now(),
		nontrivial: map[string]struct{}{},
		counters:   map[string]int64{},
		sets:       map[string]map[string]struct{}{},
		knownHits:  map[string]int{},
		extra:      map[string]any{},
		maxSamples: 10,
	}
	if r.Tier != "quick" && r.Tier != "thorough" {
		r.Tier = "quick"
	}
	if wd := envInt("VERIF_WATCHDOG_S", 300); wd > 0 {
		r.watchdog(time.Duration(wd) * time.Second)
	}
	b, err := os.ReadFile(filepath.Join(verifDir(), "known_findings.json"))
	if err == nil {
		var all []Finding
		if json.Unmarshal(b, &all) == nil {
			for _, f := range all {
				if f.Property == prop {
					r.known = append(r.known, f)
				}
			}
		}
	}
	return r
}

func envOr(k, d string) string {
	if v := os.Getenv(k); v != "" {
		return v
	}
	return d
}

func envInt(k string, d int64) int64 {
	if v := os.Getenv(k); v != "" {
		if n, err := strconv.ParseInt(v, 10, 64); err == nil {
			return n
		}
	}
	return d
}

func (r *Run) Thorough() bool { return r.Tier == "thorough" }

// Pick returns q in the quick tier and t in the thorough tier.
func (r *Run) Pick(q, t int) int {
	if r.Thorough() {
		return t
	}
	return q
}

func (r *Run) Rule(s string) { r.rule = s }
func (r *Run) Assume(s ...string) {
	r.mu.Lock()
	r.assumptions = append(r.assumptions, s...)
	r.mu.Unlock()
}
func (r *Run) Note(s string)         { r.mu.Lock(); r.notes = append(r.notes, s); r.mu.Unlock() }
func (r *Run) Exhaustive(b bool)     { r.exhaustive = &b }
func (r *Run) Extra(k string, v any) { r.mu.Lock(); r.extra[k] = v; r.mu.Unlock() }

func (r *Run) Eval(n int64) { r.mu.Lock(); r.evals += n; r.mu.Unlock(); r.touch() }

func (r *Run) touch() { r.progress.Store(time.Now().UnixNano()) }

// watchdog ends a run that makes no observable progress (no Eval/Count/Distinct/Violation call)
// for d: goroutine dump to stderr, verdict INCONCLUSIVE (exit 2) — a stall is never turned into
// "held" and never into a violation by this generic mechanism.
func (r *Run) watchdog(d time.Duration) {
	r.touch()
	go func() {
		for {
			time.Sleep(5 * time.Second)
			if idle := time.Since(time.Unix(0, r.progress.Load())); idle > d {
				fmt.Fprintf(os.Stderr, "watchdog: no progress for %s, goroutine dump follows\n", idle.Round(time.Second))
				_ = pprof.Lookup("goroutine").WriteTo(os.Stderr, 2)
				r.mu.Lock()
				viol := r.violations
				r.mu.Unlock()
				if viol > 0 {
					// violations were observed and reported before the stall: they stand
					fmt.Printf("%s %s seed=%d: run stalled (no progress for %s) after %d violation(s) had been reported; ended by the watchdog\n", r.Prop, r.Tier, r.Seed, idle.Round(time.Second), viol)
					os.Exit(1)
				}
				fmt.Printf("INCONCLUSIVE property=%s no progress for %s (stall in the code under test or in the harness); partial results discarded\n", r.Prop, idle.Round(time.Second))
				os.Exit(2)
			}
		}
	}()
}

// Nontrivial records one distinct non-trivial case (identified by key; hashed).
func (r *Run) Nontrivial(key string) {
	h := sha256.Sum256([]byte(key))
	k := hex.EncodeToString(h[:8])
	r.mu.Lock()
	r.nontrivial[k] = struct{}{}
	r.mu.Unlock()
}

func (r *Run) Count(name string, n int64) {
	r.mu.Lock()
	r.counters[name] += n
	r.mu.Unlock()
	r.touch()
}

func (r *Run) Get(name string) int64 { r.mu.Lock(); defer r.mu.Unlock(); return r.counters[name] }

// Distinct adds an element to a named set whose cardinality is reported in the evidence.
func (r *Run) Distinct(set, elem string) {
	r.mu.Lock()
	m := r.sets[set]
	if m == nil {
		m = map[string]struct{}{}
		r.sets[set] = m
	}
	if len(elem) > 64 {
		h := sha256.Sum256([]byte(elem))
		elem = hex.EncodeToString(h[:8])
	}
	m[elem] = struct{}{}
	r.mu.Unlock()
}

func (r *Run) DistinctLen(set string) int64 {
	r.mu.Lock()
	defer r.mu.Unlock()
	return int64(len(r.sets[set]))
}

func (r *Run) Sample(v any) {
	r.mu.Lock()
	if len(r.samples) < r.maxSamples {
		r.samples = append(r.samples, v)
	}
	r.mu.Unlock()
}

func (r *Run) Inconclusive(why string) {
	r.touch() // a case that ended (even without a verdict) is progress
	r.mu.Lock()
	r.inconclusive++
	if r.inconclusive <= 12 {
		fmt.Printf("NOTE inconclusive case (never a verdict): %s\n", truncate(why, 300))
	}
	if len(r.notes) < 40 {
		r.notes = append(r.notes, "inconclusive: "+why)
	}
	r.mu.Unlock()
}

// Floor registers a coverage floor: the run is "too little observed" (exit 2) unless the
// named counter / set reaches min.
func (r *Run) FloorCount(name string, min int64) {
	r.floors = append(r.floors, floor{name, min, func() int64 { return r.Get(name) }})
}

func (r *Run) FloorDistinct(set string, min int64) {
	r.floors = append(r.floors, floor{"distinct:" + set, min, func() int64 { return r.DistinctLen(set) }})
}

func (r *Run) FloorNontrivial(min int64) {
	r.floors = append(r.floors, floor{"distinct_nontrivial", min, func() int64 {
		r.mu.Lock()
		defer r.mu.Unlock()
		return int64(len(r.nontrivial))
	}})
}

// Violation reports a violation with a stable signature. If the signature is listed as
// "known" in known_findings.json it is printed (once) as KNOWN-FINDING and does not fail the
// run; otherwise a replay file is written and a VIOLATION line printed.
// It returns true if the violation is new (not a known finding).
func (r *Run) Violation(signature, what string, witness any) bool {
	r.mu.Lock()
	defer r.mu.Unlock()
	for _, f := range r.known {
		if f.Status == "known" && f.Signature == signature {
			if r.knownHits[signature] == 0 {
				fmt.Printf("KNOWN-FINDING: property=%s %s [%s]\n", r.Prop, f.What, signature)
			}
			r.knownHits[signature]++
			return false
		}
	}
	r.violations++
	if r.violations > 25 { // witnesses for the first 25 only
		return true
	}
	r.replayN++
	dir := filepath.Join(outDir(), "replays")
	_ = os.MkdirAll(dir, 0o755)
	path := filepath.Join(dir, fmt.Sprintf("%s-%d-%d.json", r.Prop, r.Seed, r.replayN))
	doc := map[string]any{
		"property":  r.Prop,
		"signature": signature,
		"what":      what,
		"tier":      r.Tier,
		"seed":      r.Seed,
		"witness":   witness,
	}
	b, err := json.MarshalIndent(doc, "", " ")
	if err != nil {
		b, _ = json.Marshal(map[string]any{"property": r.Prop, "signature": signature, "what": what, "witness": fmt.Sprintf("%+v", witness)})
	}
	_ = os.WriteFile(path, b, 0o644)
	fmt.Printf("VIOLATION property=%s replay=%s\n", r.Prop, path)
	fmt.Printf("  signature=%s: %s\n", signature, truncate(what, 600))
	return true
}

func truncate(s string, n int) string {
	if len(s) <= n {
		return s
	}
	return s[:n] + "…"
}

func (r *Run) Violations() int { r.mu.Lock(); defer r.mu.Unlock(); return r.violations }

// Finish writes the evidence file and exits.
func (r *Run) Finish() {
	code := r.finish()
	os.Exit(code)
}

func (r *Run) finish() int {
	r.mu.Lock()
	cov := map[string]any{
		"evaluations":         r.evals,
		"distinct_nontrivial": len(r.nontrivial),
		"rule":                r.rule,
		"samples":             r.samples,
		"inconclusive":        r.inconclusive,
	}
	if r.exhaustive != nil {
		cov["exhaustive"] = *r.exhaustive
	}
	names := make([]string, 0, len(r.counters))
	for k := range r.counters {
		names = append(names, k)
	}
	sort.Strings(names)
	cs := map[string]int64{}
	for _, k := range names {
		cs[k] = r.counters[k]
	}
	cov["counters"] = cs
	ds := map[string]int{}
	for k, m := range r.sets {
		ds[k] = len(m)
	}
	cov["distinct"] = ds
	for k, v := range r.extra {
		cov[k] = v
	}
	if len(r.knownHits) > 0 {
		cov["known_findings_hit"] = r.knownHits
	}
	if len(r.notes) > 0 {
		cov["notes"] = r.notes
	}
	if len(r.samples) == 0 {
		cov["samples"] = []any{"(no sample recorded)"}
	}
	doc := map[string]any{
		"property_id": r.Prop,
		"tier":        r.Tier,
		"seed":        r.Seed,
		"level":       r.Level,
		"coverage":    cov,
		"assumptions": append([]string{"held on the executions produced by this run only; nothing is claimed about executions the workload did not produce"}, r.assumptions...),
		"wall_s":      time.Since(r.start).Seconds(),
		"violations":  r.violations,
	}
	// every listed known finding is reported on every run, reproduced or not
	for _, f := range r.known {
		if f.Status == "known" && r.knownHits[f.Signature] == 0 && r.Replay == "" {
			fmt.Printf("KNOWN-FINDING: property=%s %s [%s] (not reproduced in this run)\n", r.Prop, f.What, f.Signature)
		}
	}
	viol := r.violations
	nt := len(r.nontrivial)
	evals := r.evals
	r.mu.Unlock()

	short := []string{}
	fl := map[string]any{}
	for _, f := range r.floors {
		got := f.get()
		fl[f.name] = map[string]int64{"required": f.min, "observed": got}
		if got < f.min {
			short = append(short, fmt.Sprintf("%s=%d<%d", f.name, got, f.min))
		}
	}
	if len(fl) > 0 {
		cov["coverage_floors"] = fl // a run that observed less than "required" is inconclusive (exit 2), never a pass
	}
	if len(short) > 0 {
		cov["coverage_floor_missed"] = short
	}
	if r.Replay == "" {
		b, err := json.MarshalIndent(doc, "", " ")
		if err == nil {
			dir := filepath.Join(outDir(), "evidence")
			_ = os.MkdirAll(dir, 0o755)
			tmp := filepath.Join(dir, "."+r.Prop+".json.tmp")
			if os.WriteFile(tmp, b, 0o644) == nil {
				_ = os.Rename(tmp, filepath.Join(dir, r.Prop+".json"))
			}
		} else {
			fmt.Fprintf(os.Stderr, "evidence marshal: %v\n", err)
		}
	}
	fmt.Printf("%s %s seed=%d: evaluations=%d distinct_nontrivial=%d violations=%d inconclusive=%d wall=%.1fs\n",
		r.Prop, r.Tier, r.Seed, evals, nt, viol, r.inconclusive, time.Since(r.start).Seconds())
	if viol > 0 {
		return 1
	}
	if r.Replay != "" {
		return 0
	}
	if len(short) > 0 {
		fmt.Printf("INCONCLUSIVE property=%s coverage floor missed: %v\n", r.Prop, short)
		return 2
	}
	return 0
}

// ReadReplay loads the witness part of a replay file into v.
func (r *Run) ReadReplay(v any) (signature string, err error) {
	b, err := os.ReadFile(r.Replay)
	if err != nil {
		return "", err
	}
	var doc struct {
		Signature string          `json:"signature"`
		Witness   json.RawMessage `json:"witness"`
	}
	if err := json.Unmarshal(b, &doc); err != nil {
		return "", err
	}
	return doc.Signature, json.Unmarshal(doc.Witness, v)
}

// Supervise makes the process death of the driver itself an observed outcome. It returns at once
// in the (re-executed) child, which then runs the workload; the parent never returns from it: it
// relays the child's output and, if the child dies from a panic / fatal error raised while the
// real code was serving a legitimate workload, reports a violation with the signature
// "process-died:<normalised message>". Deaths that originate in the harness itself or in
// pebble's build-tag-only invariant checks (-race builds) are "check broken"/inconclusive (exit 2).
func (r *Run) Supervise() {
	if os.Getenv("VERIF_SUPERVISED") != "" || r.Replay != "" || os.Getenv("VERIF_NO_SUPERVISE") != "" {
		return
	}
	scratch := os.Getenv("SCRATCH")
	if scratch == "" {
		scratch = os.TempDir()
	}
	errPath := filepath.Join(scratch, fmt.Sprintf("%s-supervised-stderr.txt", r.Prop))
	ef, err := os.Create(errPath)
	if err != nil {
		return // cannot supervise: run unsupervised
	}
	self, _ := os.Executable()
	cmd := exec.Command(self, os.Args[1:]...)
	cmd.Env = append(os.Environ(), "VERIF_SUPERVISED=1", "GOTRACEBACK=all")
	cmd.Stdout = os.Stdout
	cmd.Stderr = ef
	// the parent only waits: its own progress watchdog must not fire while the child is alive
	// (the child has its own watchdog)
	childDone := make(chan struct{})
	go func() {
		for {
			select {
			case <-childDone:
				return
			case <-time.After(3 * time.Second):
				r.touch()
			}
		}
	}()
	runErr := cmd.Run()
	close(childDone)
	r.replayN = 1000 // witness files of the supervising parent never overwrite the child's
	ef.Close()
	code := 0
	if runErr != nil {
		code = -1
		var ee *exec.ExitError
		if errors.As(runErr, &ee) {
			code = ee.ExitCode()
		}
	}
	b, _ := os.ReadFile(errPath)
	es := string(b)
	died := strings.Contains(es, "\npanic: ") || strings.HasPrefix(es, "panic: ") || strings.Contains(es, "fatal error: ")
	if code == 0 || code == 1 || (code == 2 && !died) {
		if len(es) > 0 && code != 0 {
			fmt.Fprint(os.Stderr, tailString(es, 4000))
		}
		os.Exit(code)
	}
	msg := firstDeathLine(es)
	tail := tailString(es, 200000)
	fmt.Fprint(os.Stderr, headString(es, 6000))
	switch {
	case strings.Contains(es, "bound violation") && strings.Contains(es, "levelIter"),
		strings.Contains(msg, "no progress for"):
		fmt.Printf("INCONCLUSIVE property=%s driver died from a third-party build-tag-only assertion or a watchdog: %s\n", r.Prop, msg)
		os.Exit(2)
	case deathInHarness(es):
		fmt.Printf("INCONCLUSIVE property=%s the harness itself panicked (check broken): %s\n", r.Prop, msg)
		os.Exit(2)
	}
	r.Eval(1)
	r.Nontrivial("process-died")
	r.Nontrivial("process-died-2")
	r.Sample(map[string]any{"outcome": "the process running the real engine died while serving a legitimate workload", "message": msg})
	r.Violation("process-died:"+normaliseDeath(msg), "the process serving the workload died: "+msg, map[string]any{"stderr_head": headString(tail, 6000)})
	r.floors = nil
	os.Exit(r.finish())
}

func firstDeathLine(es string) string {
	for _, ln := range strings.Split(es, "\n") {
		if strings.HasPrefix(ln, "panic: ") || strings.HasPrefix(ln, "fatal error: ") {
			return ln
		}
	}
	return "(no panic line)"
}

var reDigits = regexp.MustCompile(`(0x[0-9a-fA-F]+|\d+)`)

func normaliseDeath(msg string) string {
	msg = reDigits.ReplaceAllString(msg, "N")
	msg = strings.NewReplacer(" ", "-", "\t", "-", "/", "_", ":", "").Replace(msg)
	if len(msg) > 90 {
		msg = msg[:90]
	}
	return msg
}

// deathInHarness: the panicking goroutine's innermost non-runtime frame belongs to the harness.
func deathInHarness(es string) bool {
	i := strings.Index(es, "panic: ")
	if j := strings.Index(es, "fatal error: "); i < 0 || (j >= 0 && j < i) {
		i = j
	}
	if i < 0 {
		return false
	}
	rest := es[i:]
	k := strings.Index(rest, "goroutine ")
	if k < 0 {
		return false
	}
	for _, ln := range strings.Split(rest[k:], "\n")[1:] {
		if ln == "" {
			break
		}
		if strings.HasPrefix(ln, "\t") || strings.HasPrefix(ln, "panic(") || strings.HasPrefix(ln, "runtime.") || strings.HasPrefix(ln, "runtime/") || strings.HasPrefix(ln, "testing.") {
			continue
		}
		return strings.HasPrefix(ln, "verifharness/") || strings.HasPrefix(ln, "main.")
	}
	return false
}

func tailString(s string, n int) string {
	if len(s) > n {
		return s[len(s)-n:]
	}
	return s
}

func headString(s string, n int) string {
	if len(s) > n {
		return s[:n]
	}
	return s
}

// Parallel runs f(0..n-1) on `workers` goroutines (cases are independent and seed-determined, so
// the verdicts do not depend on the schedule).
func Parallel(n, workers int, f func(i int)) {
	if workers < 1 {
		workers = 1
	}
	ch := make(chan int)
	done := make(chan struct{})
	for w := 0; w < workers; w++ {
		go func() {
			defer func() { done <- struct{}{} }()
			for i := range ch {
				f(i)
			}
		}()
	}
	for i := 0; i < n; i++ {
		ch <- i
	}
	close(ch)
	for w := 0; w < workers; w++ {
		<-done
	}
}
