// Package judge compares answers produced by the real code with the reference model's
// expectation. Only what the property statements promise is judged: fields nobody asked for
// are ignored, nil and empty values are the same thing, cut range reads are judged
// relationally (prefix + truthful `more`).
package judge

import (
	"bytes"
	"fmt"

	pb "github.com/jamf/regatta/regattapb"

	"verifharness/internal/model"
)

func q(b []byte) string {
	if len(b) > 24 {
		return fmt.Sprintf("%q…(%dB)", b[:24], len(b))
	}
	return fmt.Sprintf("%q", b)
}

// MaxMsg is the transport message limit every single response has to stay below (gRPC default).
const MaxMsg = 4 * 1024 * 1024

// KVEq compares a returned pair with a model pair.
func KVEq(got *pb.KeyValue, exp model.KV, keysOnly bool) string {
	if got == nil {
		return "nil pair"
	}
	if string(got.Key) != exp.K {
		return fmt.Sprintf("key %s != expected %s", q(got.Key), q([]byte(exp.K)))
	}
	if keysOnly {
		if len(got.Value) != 0 {
			return fmt.Sprintf("keys_only answer carries a value for %s", q(got.Key))
		}
		return ""
	}
	if !bytes.Equal(got.Value, exp.V) {
		return fmt.Sprintf("value of %s: %s != expected %s", q(got.Key), q(got.Value), q(exp.V))
	}
	return ""
}

// Range judges one (possibly cut) answer to a range request against the full model answer.
// It returns "" when fine, and the number of pairs the answer consumed.
func Range(req *pb.RequestOp_Range, full []model.KV, got *pb.ResponseOp_Range) (string, int) {
	if got == nil {
		return "nil range response", 0
	}
	if req.RangeEnd == nil {
		// single key
		if len(full) == 0 {
			if len(got.Kvs) != 0 || got.Count != 0 || got.More {
				return fmt.Sprintf("single-key read of a missing key answered kvs=%d count=%d more=%v", len(got.Kvs), got.Count, got.More), 0
			}
			return "", 0
		}
		if got.Count != 1 {
			return fmt.Sprintf("single-key read count=%d, want 1", got.Count), 0
		}
		if got.More {
			return "single-key read says more", 0
		}
		if req.CountOnly && !req.KeysOnly {
			if len(got.Kvs) != 0 {
				return "count_only answer carries pairs", 0
			}
			return "", 1
		}
		if len(got.Kvs) != 1 {
			return fmt.Sprintf("single-key read returned %d pairs", len(got.Kvs)), 0
		}
		return KVEq(got.Kvs[0], full[0], req.KeysOnly || req.CountOnly), 1
	}
	n := len(got.Kvs)
	countOnly := req.CountOnly && !req.KeysOnly
	if countOnly {
		if len(got.Kvs) != 0 {
			return "count_only answer carries pairs", 0
		}
		n = int(got.Count)
	} else if got.Count != int64(len(got.Kvs)) {
		return fmt.Sprintf("count=%d but %d pairs returned", got.Count, len(got.Kvs)), 0
	}
	if n < 0 || n > len(full) {
		return fmt.Sprintf("answer covers %d pairs but the range holds only %d", n, len(full)), 0
	}
	if req.Limit > 0 && int64(n) > req.Limit {
		return fmt.Sprintf("answer covers %d pairs, limit %d", n, req.Limit), 0
	}
	if !countOnly {
		for i, kv := range got.Kvs {
			if why := KVEq(kv, full[i], req.KeysOnly); why != "" {
				return fmt.Sprintf("pair %d: %s", i, why), 0
			}
			if i > 0 && bytes.Compare(got.Kvs[i-1].Key, kv.Key) >= 0 {
				return fmt.Sprintf("pairs %d,%d not strictly ascending", i-1, i), 0
			}
		}
	}
	remain := n < len(full)
	if got.More != remain {
		return fmt.Sprintf("more=%v but %d of %d pairs were returned (limit %d)", got.More, n, len(full), req.Limit), n
	}
	if remain && n == 0 {
		return "empty answer with more=true (paging cannot make progress)", 0
	}
	if sz := got.SizeVT(); sz >= MaxMsg {
		return fmt.Sprintf("single answer of %d bytes reaches the transport message limit", sz), n
	}
	return "", n
}

// Put judges a put response.
func Put(exp *model.PutResp, got *pb.ResponseOp_Put) string {
	if got == nil {
		return "nil put response"
	}
	if !exp.Asked {
		return ""
	}
	if exp.Prev == nil {
		if got.PrevKv != nil {
			return fmt.Sprintf("prev_kv %s returned for a key that did not exist", q(got.PrevKv.Key))
		}
		return ""
	}
	if got.PrevKv == nil {
		return fmt.Sprintf("prev_kv missing for existing key %s", q([]byte(exp.Prev.K)))
	}
	return KVEq(got.PrevKv, *exp.Prev, false)
}

// Del judges a (range) delete response. The second result classifies a mismatch:
// "truncated" when the answer is a strict prefix of the expectation.
func Del(exp *model.DelResp, got *pb.ResponseOp_DeleteRange) (string, string) {
	if got == nil {
		return "nil delete response", "nil"
	}
	if exp.AskedCount && got.Deleted != int64(len(exp.Prev)) {
		cls := "count"
		if got.Deleted > 0 && got.Deleted < int64(len(exp.Prev)) {
			cls = "truncated"
		}
		return fmt.Sprintf("deleted=%d, model deleted %d", got.Deleted, len(exp.Prev)), cls
	}
	if exp.AskedPrev {
		if len(got.PrevKvs) != len(exp.Prev) {
			cls := "prev"
			if len(got.PrevKvs) > 0 && len(got.PrevKvs) < len(exp.Prev) {
				cls = "truncated"
				for i, kv := range got.PrevKvs {
					if KVEq(kv, exp.Prev[i], false) != "" {
						cls = "prev"
					}
				}
			}
			return fmt.Sprintf("prev_kvs has %d pairs, model deleted %d", len(got.PrevKvs), len(exp.Prev)), cls
		}
		for i, kv := range got.PrevKvs {
			if why := KVEq(kv, exp.Prev[i], false); why != "" {
				return fmt.Sprintf("prev_kvs[%d]: %s", i, why), "prev"
			}
		}
	}
	return "", ""
}

// Mismatch describes one response mismatch.
type Mismatch struct {
	Index int
	Class string // put | del:<class> | range | shape
	Why   string
	// PrevBytes is the total size of the pairs a delete should have reported (for signatures).
	PrevBytes int
}

// Responses judges the n-th response against the n-th expectation.
// strictLen: require the same number of responses (transactions: n-th response for n-th op).
func Responses(exp []model.OpResp, got []*pb.ResponseOp, strictLen bool) *Mismatch {
	if strictLen && len(exp) != len(got) {
		return &Mismatch{Index: -1, Class: "shape", Why: fmt.Sprintf("%d responses for %d operations", len(got), len(exp))}
	}
	for i, e := range exp {
		if i >= len(got) {
			// fewer responses than operations: only a problem when something was asked for
			if (e.Put != nil && e.Put.Asked) || (e.Del != nil && (e.Del.AskedCount || e.Del.AskedPrev)) || e.Range != nil {
				return &Mismatch{Index: i, Class: "shape", Why: fmt.Sprintf("response %d missing", i)}
			}
			continue
		}
		g := got[i]
		switch {
		case e.Put != nil:
			p := g.GetResponsePut()
			if p == nil && !e.Put.Asked {
				continue
			}
			if why := Put(e.Put, p); why != "" {
				return &Mismatch{Index: i, Class: "put", Why: why}
			}
		case e.Del != nil:
			d := g.GetResponseDeleteRange()
			if d == nil && !e.Del.AskedCount && !e.Del.AskedPrev {
				continue
			}
			if why, cls := Del(e.Del, d); why != "" {
				sz := 0
				for _, kv := range e.Del.Prev {
					sz += len(kv.K) + len(kv.V)
				}
				return &Mismatch{Index: i, Class: "del:" + cls, Why: why, PrevBytes: sz}
			}
		case e.Range != nil:
			if why, _ := Range(e.Range.Req, e.Range.Full, g.GetResponseRange()); why != "" {
				return &Mismatch{Index: i, Class: "range", Why: why}
			}
		}
	}
	return nil
}
