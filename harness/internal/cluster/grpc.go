package cluster

import (
	"net"

	// registers regatta's codec and compressors exactly like the server binary does
	_ "github.com/jamf/regatta/regattaserver"
	"google.golang.org/grpc"
	"google.golang.org/grpc/credentials/insecure"
)

// Serve starts a gRPC server on a loopback listener with the services reg registers.
func Serve(reg func(s *grpc.Server), opts ...grpc.ServerOption) (addr string, stop func(), err error) {
	l, err := net.Listen("tcp", "127.0.0.1:0")
	if err != nil {
		return "", nil, err
	}
	s := grpc.NewServer(opts...)
	reg(s)
	go func() { _ = s.Serve(l) }()
	return l.Addr().String(), func() { s.Stop() }, nil
}

// Dial connects like regatta's own clients do (plaintext, default message limits).
func Dial(addr string, opts ...grpc.DialOption) (*grpc.ClientConn, error) {
	opts = append([]grpc.DialOption{grpc.WithTransportCredentials(insecure.NewCredentials())}, opts...)
	return grpc.NewClient(addr, opts...)
}
