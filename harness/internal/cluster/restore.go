package cluster

import (
	"io"
	"os"

	pb "github.com/jamf/regatta/regattapb"
	"github.com/jamf/regatta/replication/snapshot"

	"verifharness/internal/model"
)

// SnapshotStream builds a table stream in the on-disk snapshot/backup format (one PUT command per
// pair, optionally followed by the final marker carrying a leader index) and returns it
// positioned at the start, ready for Engine.Restore. cleanup removes the temporary file
// (created under TMPDIR, which the check script points into its scratch directory).
func SnapshotStream(table string, kvs []model.KV, leaderIndex *uint64) (r io.Reader, cleanup func(), err error) {
	sf, err := snapshot.NewTemp()
	if err != nil {
		return nil, nil, err
	}
	cleanup = func() {
		_ = sf.Close()
		_ = os.Remove(sf.Path())
	}
	for _, kv := range kvs {
		b, err := (&pb.Command{Table: []byte(table), Type: pb.Command_PUT, Kv: &pb.KeyValue{Key: []byte(kv.K), Value: kv.V}}).MarshalVT()
		if err != nil {
			cleanup()
			return nil, nil, err
		}
		if _, err := sf.Write(b); err != nil {
			cleanup()
			return nil, nil, err
		}
	}
	if leaderIndex != nil {
		b, _ := (&pb.Command{Table: []byte(table), Type: pb.Command_DUMMY, LeaderIndex: leaderIndex}).MarshalVT()
		if _, err := sf.Write(b); err != nil {
			cleanup()
			return nil, nil, err
		}
	}
	if err := sf.Sync(); err != nil {
		cleanup()
		return nil, nil, err
	}
	if _, err := sf.Seek(0, io.SeekStart); err != nil {
		cleanup()
		return nil, nil, err
	}
	return sf, cleanup, nil
}
