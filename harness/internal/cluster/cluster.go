// Package cluster starts real storage.Engine instances in-process: N-node Raft clusters on
// loopback with in-memory file systems, with the seams the monitors use for injection
// (applied-index listener, table FS, small snapshot/compaction settings).
package cluster

import (
	"context"
	"fmt"
	"net"
	"strings"
	"sync"
	"time"

	pvfs "github.com/cockroachdb/pebble/vfs"
	"github.com/jamf/regatta/storage"
	"github.com/jamf/regatta/storage/table"
	"github.com/lni/dragonboat/v4/logger"
	lvfs "github.com/lni/vfs"
	"go.uber.org/zap"
)

var quietOnce sync.Once

// Quiet silences dragonboat's loggers.
func Quiet() {
	quietOnce.Do(func() {
		for _, n := range []string{"raft", "rsm", "transport", "grpc", "dragonboat", "logdb", "raftpb", "config", "settings", "tan", "utils", "pebblekv", "order", "tests", "server", "fileutil"} {
			logger.GetLogger(n).SetLevel(logger.CRITICAL)
		}
	})
}

// Opts configures a cluster.
type Opts struct {
	Nodes              int
	RTT                uint64 // ms
	ElectionRTT        uint64
	SnapshotEntries    uint64
	CompactionOverhead uint64
	// the same for the metadata (catalogue) shard
	MetaSnapshotEntries    uint64
	MetaCompactionOverhead uint64
	// TableElectionRTT optionally overrides ElectionRTT of the table shards per node (a node with a
	// long election time-out takes long to notice that it has lost its quorum)
	TableElectionRTT map[uint64]uint64
	MaxInMemLogSize  uint64
	LogCacheSize     int
	RecoveryType     table.SnapshotRecoveryType
	// Listener(node, table, rev) is called from every table replica's apply path.
	Listener func(node uint64, table string, rev uint64)
	// TableFS optionally supplies the table file system per node (default: fresh pebble MemFS).
	TableFS func(node uint64) pvfs.FS
	// NodeFS optionally supplies the node-host file system per node (default fresh MemFS).
	NodeFS func(node uint64) lvfs.FS
	// BasePort hint (0 = pick free ports).
}

// Node is one running engine.
type Node struct {
	ID     uint64
	Engine *storage.Engine
	Cfg    storage.Config
}

type Cluster struct {
	Nodes []*Node
	opts  Opts
}

// FreePorts reserves n distinct free TCP ports on loopback (also free for UDP use).
func FreePorts(n int) ([]int, error) {
	var ls []net.Listener
	var us []net.PacketConn
	defer func() {
		for _, l := range ls {
			l.Close()
		}
		for _, u := range us {
			u.Close()
		}
	}()
	ports := make([]int, 0, n)
	for len(ports) < n {
		l, err := net.Listen("tcp", "127.0.0.1:0")
		if err != nil {
			return nil, err
		}
		p := l.Addr().(*net.TCPAddr).Port
		u, err := net.ListenPacket("udp", fmt.Sprintf("127.0.0.1:%d", p))
		if err != nil {
			l.Close()
			continue
		}
		ls = append(ls, l)
		us = append(us, u)
		ports = append(ports, p)
	}
	return ports, nil
}

func isAddrErr(err error) bool {
	if err == nil {
		return false
	}
	s := err.Error()
	return strings.Contains(s, "address already in use") || strings.Contains(s, "bind:") || strings.Contains(s, "listen")
}

// Start brings up the cluster and waits until the metadata shard has a leader.
func Start(o Opts) (*Cluster, error) {
	Quiet()
	if o.Nodes == 0 {
		o.Nodes = 1
	}
	if o.RTT == 0 {
		o.RTT = 5
	}
	if o.ElectionRTT == 0 {
		o.ElectionRTT = 10
	}
	var lastErr error
	for attempt := 0; attempt < 10; attempt++ {
		c, err := start(o)
		if err == nil {
			return c, nil
		}
		lastErr = err
		if !isAddrErr(err) {
			return nil, err
		}
	}
	return nil, fmt.Errorf("cluster start (ports): %w", lastErr)
}

func start(o Opts) (*Cluster, error) {
	ports, err := FreePorts(2 * o.Nodes)
	if err != nil {
		return nil, err
	}
	members := map[uint64]string{}
	var gossip []string
	for i := 0; i < o.Nodes; i++ {
		members[uint64(i+1)] = fmt.Sprintf("127.0.0.1:%d", ports[2*i])
		gossip = append(gossip, fmt.Sprintf("127.0.0.1:%d", ports[2*i+1]))
	}
	c := &Cluster{opts: o}
	for i := 0; i < o.Nodes; i++ {
		id := uint64(i + 1)
		cfg := c.nodeConfig(id, members, gossip, nil, nil)
		n, err := startNode(cfg)
		if err != nil {
			c.Close()
			return nil, err
		}
		c.Nodes = append(c.Nodes, n)
	}
	ctx, cancel := context.WithTimeout(context.Background(), 30*time.Second)
	defer cancel()
	for _, n := range c.Nodes {
		if err := n.Engine.WaitUntilReady(ctx); err != nil {
			c.Close()
			return nil, fmt.Errorf("engine %d not ready: %w", n.ID, err)
		}
	}
	return c, nil
}

func (c *Cluster) nodeConfig(id uint64, members map[uint64]string, gossip []string, nfs lvfs.FS, tfs pvfs.FS) storage.Config {
	o := c.opts
	if nfs == nil {
		if o.NodeFS != nil {
			nfs = o.NodeFS(id)
		} else {
			nfs = lvfs.NewMem()
		}
	}
	if tfs == nil {
		if o.TableFS != nil {
			tfs = o.TableFS(id)
		} else {
			tfs = pvfs.NewMem()
		}
	}
	_ = tfs.MkdirAll("/tables", 0o755)
	var lst func(table string, rev uint64)
	if o.Listener != nil {
		lst = func(t string, rev uint64) { o.Listener(id, t, rev) }
	}
	return storage.Config{
		Log:            zap.NewNop().Sugar(),
		NodeID:         id,
		InitialMembers: members,
		WALDir:         "/wal",
		NodeHostDir:    "/nh",
		RTTMillisecond: o.RTT,
		RaftAddress:    members[id],
		Gossip: storage.GossipConfig{
			BindAddress:    gossip[id-1],
			InitialMembers: gossip,
			ClusterName:    "verif",
			NodeName:       fmt.Sprintf("n%d-%s", id, gossip[id-1]),
		},
		Table: storage.TableConfig{
			FS: tfs, DataDir: "/tables", TableCacheSize: 1024, BlockCacheSize: 16 << 20,
			ElectionRTT: tableElectionRTT(o, id), HeartbeatRTT: 1,
			SnapshotEntries: o.SnapshotEntries, CompactionOverhead: o.CompactionOverhead,
			MaxInMemLogSize: o.MaxInMemLogSize, RecoveryType: o.RecoveryType,
			AppliedIndexListener: lst,
		},
		Meta:         storage.MetaConfig{ElectionRTT: o.ElectionRTT, HeartbeatRTT: 1, SnapshotEntries: o.MetaSnapshotEntries, CompactionOverhead: o.MetaCompactionOverhead},
		LogCacheSize: o.LogCacheSize,
		FS:           nfs,
	}
}

func startNode(cfg storage.Config) (*Node, error) {
	e, err := storage.New(cfg)
	if err != nil {
		return nil, err
	}
	if err := e.Start(); err != nil {
		_ = e.Close()
		return nil, err
	}
	return &Node{ID: cfg.NodeID, Engine: e, Cfg: cfg}, nil
}

// RestartNode closes node i's engine and starts a new one on the same file systems.
func (c *Cluster) RestartNode(i int) error {
	n := c.Nodes[i]
	closeEngine(n.Engine)
	var lastErr error
	for attempt := 0; attempt < 20; attempt++ {
		nn, err := startNode(n.Cfg)
		if err == nil {
			c.Nodes[i] = nn
			ctx, cancel := context.WithTimeout(context.Background(), 30*time.Second)
			defer cancel()
			return nn.Engine.WaitUntilReady(ctx)
		}
		lastErr = err
		time.Sleep(100 * time.Millisecond)
	}
	return lastErr
}

// StopNode shuts node i down (its files stay); StartNode brings it back.
func (c *Cluster) StopNode(i int) {
	closeEngine(c.Nodes[i].Engine)
}

func (c *Cluster) StartNode(i int) error {
	n := c.Nodes[i]
	var lastErr error
	for attempt := 0; attempt < 20; attempt++ {
		nn, err := startNode(n.Cfg)
		if err == nil {
			c.Nodes[i] = nn
			ctx, cancel := context.WithTimeout(context.Background(), 30*time.Second)
			defer cancel()
			return nn.Engine.WaitUntilReady(ctx)
		}
		lastErr = err
		time.Sleep(100 * time.Millisecond)
	}
	return lastErr
}

func closeEngine(e *storage.Engine) {
	defer func() { _ = recover() }()
	_ = e.Cluster.Close()
	_ = e.Close()
}

func (c *Cluster) Close() {
	for _, n := range c.Nodes {
		if n != nil && n.Engine != nil {
			closeEngine(n.Engine)
		}
	}
}

// ReconcileAll triggers one reconciliation pass on every node (the periodic one fires every 30 s).
func (c *Cluster) ReconcileAll() {
	for _, n := range c.Nodes {
		_ = n.Engine.Manager.VerifReconcile()
	}
}

// CreateTable creates the table on node 0 and makes every node start its replica.
func (c *Cluster) CreateTable(name string) (table.Table, error) {
	t, err := c.Nodes[0].Engine.CreateTable(name)
	if err != nil {
		return t, err
	}
	c.ReconcileAll()
	return t, c.WaitTable(name, 30*time.Second)
}

// WaitTable waits until every node can serve the table (leader known).
func (c *Cluster) WaitTable(name string, d time.Duration) error {
	deadline := time.Now().Add(d)
	for {
		ok := true
		for _, n := range c.Nodes {
			t, err := n.Engine.GetTable(name)
			if err != nil {
				ok = false
				break
			}
			if _, _, valid, err := n.Engine.GetLeaderID(t.ClusterID); err != nil || !valid {
				ok = false
				break
			}
		}
		if ok {
			return nil
		}
		if time.Now().After(deadline) {
			return fmt.Errorf("table %s not ready on all nodes", name)
		}
		time.Sleep(20 * time.Millisecond)
		c.ReconcileAll()
	}
}

func tableElectionRTT(o Opts, id uint64) uint64 {
	if v, ok := o.TableElectionRTT[id]; ok {
		return v
	}
	return o.ElectionRTT
}
