package cluster

import (
	"fmt"
	"sync"
	"sync/atomic"
	"time"

	pb "github.com/jamf/regatta/regattapb"
	"github.com/jamf/regatta/regattaserver"
	"github.com/jamf/regatta/replication"
	"github.com/jamf/regatta/storage"
	"go.uber.org/zap"
	"google.golang.org/grpc"
)

// ReplStats counts what the leader's replication server actually served (path coverage is
// observed, not assumed).
type ReplStats struct {
	ReplicateCalls   atomic.Int64
	CommandMessages  atomic.Int64
	Commands         atomic.Int64
	UseSnapshot      atomic.Int64
	LeaderBehind     atomic.Int64
	EmptyMessages    atomic.Int64
	SnapshotStreams  atomic.Int64
	SnapshotChunks   atomic.Int64
	MetadataRequests atomic.Int64
	// command messages whose last command is a Raft-internal (DUMMY) entry with data commands in
	// front of it, and how many of those were followed by another command message in the same stream
	DummyTail         atomic.Int64
	DummyTailThenMore atomic.Int64
	DummyAny          atomic.Int64 // command messages carrying a Raft-internal entry anywhere
	DummyAlone        atomic.Int64 // ... as their only command
	DummyFirst        atomic.Int64 // ... as their first of several commands
}

type countingStream struct {
	grpc.ServerStream
	st     *ReplStats
	method string
	tail   bool // the previous command message of this stream ended [data..., DUMMY]
}

func (c *countingStream) SendMsg(m any) error {
	switch v := m.(type) {
	case *pb.ReplicateResponse:
		switch r := v.Response.(type) {
		case *pb.ReplicateResponse_CommandsResponse:
			c.st.CommandMessages.Add(1)
			c.st.Commands.Add(int64(len(r.CommandsResponse.GetCommands())))
			cs := r.CommandsResponse.GetCommands()
			if c.tail && len(cs) > 0 {
				c.st.DummyTailThenMore.Add(1)
			}
			c.tail = false
			for i, x := range cs {
				if x.GetCommand().GetType() == pb.Command_DUMMY && x.GetLeaderIndex() > 2 {
					c.st.DummyAny.Add(1)
					if len(cs) == 1 {
						c.st.DummyAlone.Add(1)
					} else if i == 0 {
						c.st.DummyFirst.Add(1)
					}
					break
				}
			}
			if n := len(cs); n > 1 && cs[n-1].GetCommand().GetType() == pb.Command_DUMMY {
				for _, x := range cs[:n-1] {
					if x.GetCommand().GetType() != pb.Command_DUMMY {
						c.tail = true
					}
				}
				if c.tail {
					c.st.DummyTail.Add(1)
				}
			}
		case *pb.ReplicateResponse_ErrorResponse:
			if r.ErrorResponse.Error == pb.ReplicateError_USE_SNAPSHOT {
				c.st.UseSnapshot.Add(1)
			} else {
				c.st.LeaderBehind.Add(1)
			}
		default:
			c.st.EmptyMessages.Add(1)
		}
	case *pb.SnapshotChunk:
		c.st.SnapshotChunks.Add(1)
	}
	return c.ServerStream.SendMsg(m)
}

// Leader is a leader cluster plus its replication endpoint (served by node 0).
type Leader struct {
	*Cluster
	ReplAddr string
	Stats    *ReplStats
	stop     func()
}

// StartLeader starts a leader cluster and the replication gRPC server (Metadata, Snapshot, KV,
// Log) exactly as cmd/leader.go registers them. maxMsg is the replication message size limit.
func StartLeader(o Opts, maxMsg uint64) (*Leader, error) {
	c, err := Start(o)
	if err != nil {
		return nil, err
	}
	e := c.Nodes[0].Engine
	st := &ReplStats{}
	addr, stop, err := Serve(func(s *grpc.Server) {
		pb.RegisterMetadataServer(s, &regattaserver.MetadataServer{Tables: e})
		pb.RegisterSnapshotServer(s, &regattaserver.SnapshotServer{Tables: e})
		pb.RegisterKVServer(s, &regattaserver.KVServer{Storage: e})
		pb.RegisterLogServer(s, regattaserver.NewLogServer(e, e.LogReader, zap.NewNop(), maxMsg))
	}, grpc.ChainStreamInterceptor(func(srv any, ss grpc.ServerStream, info *grpc.StreamServerInfo, h grpc.StreamHandler) error {
		switch info.FullMethod {
		case "/replication.v1.Log/Replicate":
			st.ReplicateCalls.Add(1)
		case "/replication.v1.Snapshot/Stream":
			st.SnapshotStreams.Add(1)
		}
		return h(srv, &countingStream{ServerStream: ss, st: st, method: info.FullMethod})
	}))
	if err != nil {
		c.Close()
		return nil, err
	}
	return &Leader{Cluster: c, ReplAddr: addr, Stats: st, stop: stop}, nil
}

func (l *Leader) Close() {
	if l.stop != nil {
		l.stop()
	}
	l.Cluster.Close()
}

// FollowerNode is the per-node follower wiring of cmd/follower.go.
type FollowerNode struct {
	Queue   *storage.IndexNotificationQueue
	Mgr     *replication.Manager
	Conn    *grpc.ClientConn
	APIAddr string // ForwardingKVServer endpoint
	stopAPI func()
}

type Follower struct {
	*Cluster
	N          []*FollowerNode
	cfg        replication.Config
	leaderAddr string
}

// FollowerOpts configures a follower cluster.
type FollowerOpts struct {
	Opts
	Repl replication.Config
	// Hook is called from every table replica's apply path BEFORE the notification queue is
	// told (stalling here = slow follower apply).
	Hook func(node uint64, table string, rev uint64)
	// NoManager leaves the replication manager to be started by the caller (StartManager).
	NoManager bool
}

func defaultRepl(c replication.Config) replication.Config {
	if c.ReconcileInterval == 0 {
		c.ReconcileInterval = 250 * time.Millisecond
	}
	if c.Workers.PollInterval == 0 {
		c.Workers.PollInterval = 20 * time.Millisecond
	}
	if c.Workers.LeaseInterval == 0 {
		c.Workers.LeaseInterval = 100 * time.Millisecond
	}
	if c.Workers.LogRPCTimeout == 0 {
		c.Workers.LogRPCTimeout = 5 * time.Second
	}
	if c.Workers.SnapshotRPCTimeout == 0 {
		c.Workers.SnapshotRPCTimeout = 60 * time.Second
	}
	if c.Workers.MaxRecoveryInFlight == 0 {
		c.Workers.MaxRecoveryInFlight = 1
	}
	return c
}

// StartFollower starts a follower cluster replicating from leaderAddr.
func StartFollower(leaderAddr string, fo FollowerOpts) (*Follower, error) {
	if fo.Nodes == 0 {
		fo.Nodes = 1
	}
	queues := make([]*storage.IndexNotificationQueue, fo.Nodes+1)
	for i := 1; i <= fo.Nodes; i++ {
		queues[i] = storage.NewNotificationQueue()
		go queues[i].Run()
	}
	hook := fo.Hook
	user := fo.Listener
	fo.Opts.Listener = func(node uint64, table string, rev uint64) {
		if hook != nil {
			hook(node, table, rev)
		}
		queues[node].Notify(table, rev)
		if user != nil {
			user(node, table, rev)
		}
	}
	c, err := Start(fo.Opts)
	if err != nil {
		return nil, err
	}
	f := &Follower{Cluster: c, cfg: defaultRepl(fo.Repl), leaderAddr: leaderAddr}
	for i, n := range c.Nodes {
		fn := &FollowerNode{Queue: queues[i+1]}
		f.N = append(f.N, fn)
		conn, err := Dial(leaderAddr, grpc.WithDefaultCallOptions(grpc.UseCompressor("gzip")), grpc.WithDefaultCallOptions(grpc.MaxCallRecvMsgSize(8*1024*1024)))
		if err != nil {
			f.Close()
			return nil, err
		}
		fn.Conn = conn
		e := n.Engine
		addr, stop, err := Serve(func(s *grpc.Server) {
			pb.RegisterKVServer(s, regattaserver.NewForwardingKVServer(e, pb.NewKVClient(conn), fn.Queue))
		})
		if err != nil {
			f.Close()
			return nil, err
		}
		fn.APIAddr, fn.stopAPI = addr, stop
		if !fo.NoManager {
			if err := f.StartManager(i); err != nil {
				f.Close()
				return nil, err
			}
		}
	}
	return f, nil
}

// StartManager starts (or restarts after StopManager) the replication manager of node i.
func (f *Follower) StartManager(i int) error {
	fn := f.N[i]
	if fn.Mgr != nil {
		return fmt.Errorf("manager %d already running", i)
	}
	m := replication.NewManager(f.Nodes[i].Engine, fn.Queue, fn.Conn, f.cfg)
	if err := m.Start(); err != nil {
		// a manager started earlier on this engine left its metadata shard (2000) running
		_ = f.Nodes[i].Engine.StopShard(2000)
		time.Sleep(50 * time.Millisecond)
		m = replication.NewManager(f.Nodes[i].Engine, fn.Queue, fn.Conn, f.cfg)
		if err := m.Start(); err != nil {
			return err
		}
	}
	fn.Mgr = m
	return nil
}

// StopManager closes node i's replication manager (workers return their leases).
func (f *Follower) StopManager(i int) {
	if fn := f.N[i]; fn.Mgr != nil {
		closeMgr(fn.Mgr)
		fn.Mgr = nil
	}
}

func closeMgr(m *replication.Manager) {
	done := make(chan struct{})
	go func() {
		defer close(done)
		defer func() { _ = recover() }()
		m.Close()
	}()
	select {
	case <-done:
	case <-time.After(20 * time.Second):
	}
}

var closeMu sync.Mutex

func (f *Follower) Close() {
	closeMu.Lock()
	defer closeMu.Unlock()
	for i, fn := range f.N {
		if fn == nil {
			continue
		}
		f.StopManager(i)
		if fn.stopAPI != nil {
			fn.stopAPI()
		}
		if fn.Conn != nil {
			_ = fn.Conn.Close()
		}
		if fn.Queue != nil {
			_ = fn.Queue.Close()
		}
	}
	f.Cluster.Close()
}

// RestartEngine stops node i's replication manager and API server, restarts its engine on the same
// file systems, and brings the manager and API server back.
func (f *Follower) RestartEngine(i int) error { return f.RestartEngineWith(i, nil) }

// RestartEngineWith runs between() while the node is down.
func (f *Follower) RestartEngineWith(i int, between func()) error {
	return f.restartEngine(i, between, false)
}

// CrashEngineWith closes the engine first, under the running replication manager (whatever the
// workers are doing at that moment fails, as it does when the node goes away), and only then
// stops the manager; between() runs while the node is down.
func (f *Follower) CrashEngineWith(i int, between func()) error {
	return f.restartEngine(i, between, true)
}

func (f *Follower) restartEngine(i int, between func(), engineFirst bool) error {
	fn := f.N[i]
	if engineFirst {
		f.Cluster.StopNode(i)
	}
	f.StopManager(i)
	if fn.stopAPI != nil {
		fn.stopAPI()
		fn.stopAPI = nil
	}
	if !engineFirst {
		f.Cluster.StopNode(i)
	}
	if between != nil {
		between()
	}
	if err := f.Cluster.StartNode(i); err != nil {
		return err
	}
	e := f.Nodes[i].Engine
	addr, stop, err := Serve(func(s *grpc.Server) {
		pb.RegisterKVServer(s, regattaserver.NewForwardingKVServer(e, pb.NewKVClient(fn.Conn), fn.Queue))
	})
	if err != nil {
		return err
	}
	fn.APIAddr, fn.stopAPI = addr, stop
	return f.StartManager(i)
}
