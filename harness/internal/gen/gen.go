// Package gen holds the seeded generators shared by the drivers: nasty keys, values, range
// bounds, commands, transactions and read requests.
package gen

import (
	"fmt"
	"math/rand"
	"strings"

	pb "github.com/jamf/regatta/regattapb"
)

// G is a seeded generator. Peek (optional) lets it aim predicates at stored values.
type G struct {
	R       *rand.Rand
	Pool    [][]byte // key pool (small on purpose so that commands collide)
	Big     bool     // allow 1-2 MiB values
	BigP    int      // percentage of big values when Big (default 5)
	Peek    func(key []byte) ([]byte, bool)
	counter int
	Tag     string
	// LeaderIdx: when >0 commands occasionally carry a leader index (monotone counter);
	LeaderIdx uint64
	WithLI    bool
}

var alphabet = []byte{0x00, 0x01, 0x61, 0x62, 0xFE, 0xFF}

func New(seed int64) *G {
	g := &G{R: rand.New(rand.NewSource(seed))}
	g.Pool = g.makePool(10)
	return g
}

// NewPool re-draws the key pool with n keys.
func (g *G) NewPool(n int) { g.Pool = g.makePool(n) }

func (g *G) makePool(n int) [][]byte {
	seen := map[string]bool{}
	var pool [][]byte
	add := func(k []byte) {
		if len(k) == 0 || seen[string(k)] {
			return
		}
		seen[string(k)] = true
		pool = append(pool, k)
	}
	for len(pool) < n {
		switch g.R.Intn(12) {
		case 0: // a key that is a prefix / extension of an existing one
			if len(pool) > 0 {
				b := pool[g.R.Intn(len(pool))]
				if g.R.Intn(2) == 0 && len(b) > 1 {
					add(append([]byte{}, b[:len(b)-1]...))
				} else if len(b) < 1024 {
					add(append(append([]byte{}, b...), alphabet[g.R.Intn(len(alphabet))]))
				}
			}
		case 1: // long keys around the encoded-length limits
			ln := []int{1018, 1019, 1020, 1023, 1024}[g.R.Intn(5)]
			c := []byte{0xFF, 0x00, 0x61}[g.R.Intn(3)]
			k := make([]byte, ln)
			for i := range k {
				k[i] = c
			}
			if g.R.Intn(2) == 0 {
				k[ln-1] = alphabet[g.R.Intn(len(alphabet))]
			}
			add(k)
		case 2: // keys that look like bookkeeping
			add([]byte([]string{"index", "leader_index", "\x02index", "\x01index"}[g.R.Intn(4)]))
		default:
			ln := 1 + g.R.Intn(4)
			k := make([]byte, ln)
			for i := range k {
				k[i] = alphabet[g.R.Intn(len(alphabet))]
			}
			add(k)
		}
	}
	return pool
}

func (g *G) Key() []byte {
	if g.R.Intn(20) == 0 { // occasionally a key outside the pool
		ln := 1 + g.R.Intn(3)
		k := make([]byte, ln)
		for i := range k {
			k[i] = alphabet[g.R.Intn(len(alphabet))]
		}
		return k
	}
	return append([]byte{}, g.Pool[g.R.Intn(len(g.Pool))]...)
}

// RangeEnd draws an upper bound for a range starting at key.
func (g *G) RangeEnd(key []byte) []byte {
	switch g.R.Intn(10) {
	case 0, 1, 2:
		return []byte{0} // wildcard
	case 3:
		return append([]byte{}, key...) // equal ⇒ empty
	case 4: // immediate successor ⇒ exactly the key
		return append(append([]byte{}, key...), 0)
	case 5: // prefix range: key with last byte + 1
		e := append([]byte{}, key...)
		for i := len(e) - 1; i >= 0; i-- {
			e[i]++
			if e[i] != 0 {
				return e[:i+1]
			}
		}
		return []byte{0}
	case 6:
		return []byte{0xFF, 0xFF, 0xFF, 0xFF, 0xFF}
	default:
		return g.Key() // may be inverted
	}
}

// LowKey draws a lower bound: a key, or "\0".
func (g *G) LowKey() []byte {
	if g.R.Intn(4) == 0 {
		return []byte{0}
	}
	return g.Key()
}

func (g *G) Value() []byte {
	g.counter++
	if g.Big && g.BigP > 0 && g.R.Intn(100) < g.BigP {
		return g.bigValue()
	}
	switch n := g.R.Intn(20); {
	case n == 0:
		return nil
	case n == 1:
		return []byte{}
	case n == 2:
		return []byte{0}
	case n == 3:
		return []byte(strings.Repeat("x", 300) + fmt.Sprint(g.counter))
	case n == 4 && g.Big:
		return g.bigValue()
	default:
		return []byte(fmt.Sprintf("v%s%d", g.Tag, g.counter))
	}
}

func (g *G) bigValue() []byte {
	sz := 1<<20 + g.R.Intn(1<<20)
	b := make([]byte, sz)
	for i := 0; i < len(b); i += 4096 {
		b[i] = byte(g.R.Intn(256))
	}
	copy(b, fmt.Sprintf("big%s%d", g.Tag, g.counter))
	return b
}

func (g *G) RangeReq() *pb.RequestOp_Range {
	r := &pb.RequestOp_Range{Key: g.LowKey()}
	if g.R.Intn(3) > 0 {
		r.RangeEnd = g.RangeEnd(r.Key)
	} else {
		r.Key = g.Key()
	}
	switch g.R.Intn(6) {
	case 0:
		r.KeysOnly = true
	case 1:
		r.CountOnly = true
	}
	if g.R.Intn(3) == 0 {
		r.Limit = int64(g.R.Intn(5))
	}
	return r
}

func (g *G) putOp() *pb.RequestOp_Put {
	return &pb.RequestOp_Put{Key: g.Key(), Value: g.Value(), PrevKv: g.R.Intn(2) == 0}
}

func (g *G) delOp() *pb.RequestOp_DeleteRange {
	d := &pb.RequestOp_DeleteRange{Key: g.Key(), PrevKv: g.R.Intn(2) == 0, Count: g.R.Intn(2) == 0}
	if g.R.Intn(2) == 0 {
		if g.R.Intn(3) == 0 {
			d.Key = g.LowKey()
		}
		d.RangeEnd = g.RangeEnd(d.Key)
	}
	return d
}

func (g *G) Op() *pb.RequestOp {
	switch g.R.Intn(3) {
	case 0:
		return &pb.RequestOp{Request: &pb.RequestOp_RequestRange{RequestRange: g.RangeReq()}}
	case 1:
		return &pb.RequestOp{Request: &pb.RequestOp_RequestPut{RequestPut: g.putOp()}}
	default:
		return &pb.RequestOp{Request: &pb.RequestOp_RequestDeleteRange{RequestDeleteRange: g.delOp()}}
	}
}

// ReadOp draws a range-only operation.
func (g *G) ReadOp() *pb.RequestOp {
	return &pb.RequestOp{Request: &pb.RequestOp_RequestRange{RequestRange: g.RangeReq()}}
}

func (g *G) Compare() *pb.Compare {
	c := &pb.Compare{Key: g.Key(), Result: pb.Compare_CompareResult(g.R.Intn(4))}
	if g.R.Intn(3) == 0 {
		if g.R.Intn(3) == 0 {
			c.Key = g.LowKey()
		}
		c.RangeEnd = g.RangeEnd(c.Key)
	}
	if g.R.Intn(5) == 0 {
		return c // existence only (no target)
	}
	var target []byte
	if g.Peek != nil {
		if v, ok := g.Peek(c.Key); ok && g.R.Intn(4) > 0 {
			target = append([]byte{}, v...)
			switch g.R.Intn(5) {
			case 0:
				if len(target) > 0 {
					target = target[:len(target)-1] // proper prefix ⇒ stored > target
				}
			case 1:
				target = append(target, 0) // successor ⇒ stored < target
			}
		} else {
			target = g.Value()
		}
	} else {
		target = g.Value()
	}
	if target == nil {
		target = []byte{}
	}
	c.TargetUnion = &pb.Compare_Value{Value: target}
	return c
}

func (g *G) Txn(readOnly bool) *pb.Txn {
	t := &pb.Txn{}
	for i, n := 0, g.R.Intn(4); i < n; i++ {
		t.Compare = append(t.Compare, g.Compare())
	}
	op := g.Op
	if readOnly {
		op = g.ReadOp
	}
	for i, n := 0, g.R.Intn(5); i < n; i++ {
		t.Success = append(t.Success, op())
	}
	for i, n := 0, g.R.Intn(5); i < n; i++ {
		t.Failure = append(t.Failure, op())
	}
	return t
}

// Command draws one write command. depth limits SEQUENCE nesting.
func (g *G) Command(depth int) *pb.Command {
	c := &pb.Command{Table: []byte("t")}
	n := g.R.Intn(20)
	switch {
	case n < 6:
		c.Type = pb.Command_PUT
		c.Kv = &pb.KeyValue{Key: g.Key(), Value: g.Value()}
		c.PrevKvs = g.R.Intn(2) == 0
	case n < 9:
		c.Type = pb.Command_DELETE
		c.Kv = &pb.KeyValue{Key: g.Key()}
		c.PrevKvs = g.R.Intn(2) == 0
		c.Count = g.R.Intn(2) == 0
	case n < 12:
		c.Type = pb.Command_DELETE
		lo := g.LowKey()
		c.Kv = &pb.KeyValue{Key: lo}
		c.RangeEnd = g.RangeEnd(lo)
		if g.R.Intn(12) == 0 {
			c.RangeEnd = []byte{} // present but empty
		}
		c.PrevKvs = g.R.Intn(2) == 0
		c.Count = g.R.Intn(2) == 0
	case n < 13:
		c.Type = pb.Command_PUT_BATCH
		for i, m := 0, g.R.Intn(4); i < m; i++ {
			c.Batch = append(c.Batch, &pb.KeyValue{Key: g.Key(), Value: g.Value()})
		}
	case n < 14:
		c.Type = pb.Command_DELETE_BATCH
		for i, m := 0, g.R.Intn(4); i < m; i++ {
			c.Batch = append(c.Batch, &pb.KeyValue{Key: g.Key()})
		}
	case n < 17:
		c.Type = pb.Command_TXN
		c.Txn = g.Txn(false)
	case n < 18:
		c.Type = pb.Command_DUMMY
	default:
		if depth <= 0 {
			c.Type = pb.Command_PUT
			c.Kv = &pb.KeyValue{Key: g.Key(), Value: g.Value()}
		} else {
			c.Type = pb.Command_SEQUENCE
			// what the replication worker proposes: leader commands, most of them carrying their
			// leader index (some at or below what the table has recorded already)
			labelled := g.R.Intn(2) == 0
			for i, m := 0, g.R.Intn(4); i < m; i++ {
				sc := g.Command(depth - 1)
				if labelled && g.R.Intn(5) > 0 {
					v := uint64(g.R.Intn(60))
					sc.LeaderIndex = &v
				}
				c.Sequence = append(c.Sequence, sc)
			}
		}
	}
	return c
}

// Cut splits n consecutive items into random consecutive batches of size 1..max.
func (g *G) Cut(n, max int) []int {
	var cuts []int
	for n > 0 {
		k := 1 + g.R.Intn(max)
		if k > n {
			k = n
		}
		cuts = append(cuts, k)
		n -= k
	}
	return cuts
}

// Describe renders a command compactly for samples and witnesses.
func Describe(c *pb.Command) string {
	var sb strings.Builder
	describe(&sb, c)
	return sb.String()
}

func qb(b []byte) string {
	if b == nil {
		return "-"
	}
	if len(b) > 12 {
		return fmt.Sprintf("%q..(%dB)", b[:8], len(b))
	}
	return fmt.Sprintf("%q", b)
}

func describe(sb *strings.Builder, c *pb.Command) {
	if c.LeaderIndex != nil {
		fmt.Fprintf(sb, "li=%d:", *c.LeaderIndex)
	}
	switch c.Type {
	case pb.Command_PUT:
		fmt.Fprintf(sb, "PUT(%s=%s prev=%v)", qb(c.Kv.GetKey()), qb(c.Kv.GetValue()), c.PrevKvs)
	case pb.Command_DELETE:
		fmt.Fprintf(sb, "DEL(%s end=%s prev=%v count=%v)", qb(c.Kv.GetKey()), qb(c.RangeEnd), c.PrevKvs, c.Count)
	case pb.Command_PUT_BATCH:
		fmt.Fprintf(sb, "PUTB(")
		for _, kv := range c.Batch {
			fmt.Fprintf(sb, "%s=%s ", qb(kv.Key), qb(kv.Value))
		}
		sb.WriteString(")")
	case pb.Command_DELETE_BATCH:
		fmt.Fprintf(sb, "DELB(")
		for _, kv := range c.Batch {
			fmt.Fprintf(sb, "%s ", qb(kv.Key))
		}
		sb.WriteString(")")
	case pb.Command_TXN:
		sb.WriteString(DescribeTxn(c.Txn))
	case pb.Command_SEQUENCE:
		sb.WriteString("SEQ[")
		for i, s := range c.Sequence {
			if i > 0 {
				sb.WriteString("; ")
			}
			describe(sb, s)
		}
		sb.WriteString("]")
	case pb.Command_DUMMY:
		sb.WriteString("DUMMY")
	}
}

func DescribeOp(op *pb.RequestOp) string {
	switch o := op.Request.(type) {
	case *pb.RequestOp_RequestRange:
		return DescribeRange(o.RequestRange)
	case *pb.RequestOp_RequestPut:
		return fmt.Sprintf("put(%s=%s prev=%v)", qb(o.RequestPut.Key), qb(o.RequestPut.Value), o.RequestPut.PrevKv)
	case *pb.RequestOp_RequestDeleteRange:
		d := o.RequestDeleteRange
		return fmt.Sprintf("del(%s end=%s prev=%v count=%v)", qb(d.Key), qb(d.RangeEnd), d.PrevKv, d.Count)
	}
	return "op(?)"
}

func DescribeRange(r *pb.RequestOp_Range) string {
	return fmt.Sprintf("range(%s end=%s limit=%d keys=%v count=%v)", qb(r.Key), qb(r.RangeEnd), r.Limit, r.KeysOnly, r.CountOnly)
}

func DescribeTxn(t *pb.Txn) string {
	var sb strings.Builder
	sb.WriteString("TXN{if ")
	for i, c := range t.GetCompare() {
		if i > 0 {
			sb.WriteString(" && ")
		}
		tgt := "exists"
		if c.TargetUnion != nil {
			tgt = fmt.Sprintf("%s %s", c.Result, qb(c.GetValue()))
		}
		fmt.Fprintf(&sb, "[%s end=%s] %s", qb(c.Key), qb(c.RangeEnd), tgt)
	}
	sb.WriteString(" then ")
	for _, op := range t.GetSuccess() {
		sb.WriteString(DescribeOp(op) + ",")
	}
	sb.WriteString(" else ")
	for _, op := range t.GetFailure() {
		sb.WriteString(DescribeOp(op) + ",")
	}
	sb.WriteString("}")
	return sb.String()
}
