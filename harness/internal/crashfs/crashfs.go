// Package crashfs wraps pebble's strict in-memory file system (file data durable up to the
// file's last Sync, directory entries up to the directory's last Sync) with an operation
// counter, an event log and a crash trigger: from mutating operation number k on, syncs are
// ignored; after the scenario ends ResetToSyncedState() discards everything that was not
// durable, which is exactly "crash just before operation k".
package crashfs

import (
	"fmt"
	"io"
	"os"
	"path/filepath"
	"regexp"
	"strings"
	"sync"

	"github.com/cockroachdb/pebble/vfs"
)

// Op is one mutating file-system operation.
type Op struct {
	N     int
	Kind  string // create write sync syncdir rename remove removeall mkdirall link reuse
	Class string // path class
	Phase string
	Path  string
}

type FS struct {
	mem *vfs.MemFS

	mu      sync.Mutex
	n       int
	crashAt int // 0 = never
	crashed bool
	failAt  int // 0 = never: mutating operation k is not executed and returns an I/O error (once)
	failed  bool
	killAt  int  // 0 = never: "process killed" just before mutating operation k
	killed  bool // from then on nothing reaches the file system any more (but nothing is lost either)
	phase   string
	log     []Op
	keepLog bool
	delay   func(op Op)
}

// New returns a crash-simulating FS; base (the operator-provided data directory) is created and
// made durable beforehand.
func New(base string) *FS {
	m := vfs.NewStrictMem()
	_ = m.MkdirAll(base, 0o755)
	for d := base; ; d = filepath.Dir(d) {
		if f, err := m.OpenDir(d); err == nil {
			_ = f.Sync()
			_ = f.Close()
		}
		if filepath.Dir(d) == d {
			break
		}
	}
	return &FS{mem: m, keepLog: true}
}

// CrashAt arms the trigger: mutating operation number k (1-based) and everything after it is not
// made durable. k == 0 disarms.
func (f *FS) CrashAt(k int) {
	f.mu.Lock()
	f.crashAt = k
	f.mu.Unlock()
}

// KillAt arms the other fault: the PROCESS dies just before mutating operation k. Everything done
// before stays (also what was never synced: the operating system keeps it), nothing after it
// happens. Restart with RestartAfterKill (which does not discard unsynced state).
func (f *FS) KillAt(k int) {
	f.mu.Lock()
	f.killAt = k
	f.mu.Unlock()
}

// FailAt arms the third fault: mutating operation k is not carried out and reports an I/O error;
// everything before and after it works (a transient device / quota / permission error).
func (f *FS) FailAt(k int) {
	f.mu.Lock()
	f.failAt, f.failed = k, false
	f.mu.Unlock()
}

// Failed tells whether the error trigger has fired; FailOp returns the operation that failed.
func (f *FS) Failed() bool { f.mu.Lock(); defer f.mu.Unlock(); return f.failed }

func (f *FS) FailOp() Op {
	f.mu.Lock()
	defer f.mu.Unlock()
	if f.failAt > 0 && f.failAt <= len(f.log) {
		return f.log[f.failAt-1]
	}
	return Op{}
}

// ErrInjected is what the failing operation returns.
var ErrInjected = fmt.Errorf("input/output error (injected)")

// Killed tells whether the kill trigger has fired.
func (f *FS) Killed() bool { f.mu.Lock(); defer f.mu.Unlock(); return f.killed }

// KillOp returns the operation before which the process was killed.
func (f *FS) KillOp() Op {
	f.mu.Lock()
	defer f.mu.Unlock()
	if f.killAt > 0 && f.killAt <= len(f.log) {
		return f.log[f.killAt-1]
	}
	return Op{}
}

// RestartAfterKill restarts on exactly the state that existed when the process was killed.
func (f *FS) RestartAfterKill() {
	f.mem.ResetToSyncedState()
	f.mem.SetIgnoreSyncs(false)
	f.mu.Lock()
	f.killed = false
	f.killAt = 0
	f.mu.Unlock()
}

// syncAll makes the complete current tree durable (files and directory entries).
func (f *FS) syncAll(dir string) {
	names, err := f.mem.List(dir)
	if err != nil {
		return
	}
	for _, n := range names {
		p := filepath.Join(dir, n)
		st, err := f.mem.Stat(p)
		if err != nil {
			continue
		}
		if st.IsDir() {
			f.syncAll(p)
			continue
		}
		if fl, err := f.mem.Open(p); err == nil {
			_ = fl.Sync()
			_ = fl.Close()
		}
	}
	if d, err := f.mem.OpenDir(dir); err == nil {
		_ = d.Sync()
		_ = d.Close()
	}
}

// Rearm resets the counter (used for a second crash point relative to "now").
func (f *FS) Rearm(k int) {
	f.mu.Lock()
	f.n = 0
	f.crashAt = k
	f.log = nil
	f.mu.Unlock()
}

// SetDelay installs a function called (outside the FS lock) before every mutating operation is
// carried out: a slow device. nil removes it.
func (f *FS) SetDelay(d func(op Op)) { f.mu.Lock(); f.delay = d; f.mu.Unlock() }

func (f *FS) SetPhase(p string) { f.mu.Lock(); f.phase = p; f.mu.Unlock() }

// Crashed tells whether the trigger has fired.
func (f *FS) Crashed() bool { f.mu.Lock(); defer f.mu.Unlock(); return f.crashed }

// Ops returns the number of mutating operations seen.
func (f *FS) Ops() int { f.mu.Lock(); defer f.mu.Unlock(); return f.n }

// Log returns a copy of the operation log.
func (f *FS) Log() []Op { f.mu.Lock(); defer f.mu.Unlock(); return append([]Op{}, f.log...) }

// CrashOp returns the operation at which the trigger fired (zero value if it did not).
func (f *FS) CrashOp() Op {
	f.mu.Lock()
	defer f.mu.Unlock()
	if f.crashAt > 0 && f.crashAt <= len(f.log) {
		return f.log[f.crashAt-1]
	}
	return Op{}
}

// Restart simulates the restart after the crash: everything not durable is discarded, syncs work
// again, the trigger is disarmed. All users of the old state must have been closed.
func (f *FS) Restart() {
	f.mem.ResetToSyncedState()
	f.mem.SetIgnoreSyncs(false)
	f.mu.Lock()
	f.crashed = false
	f.crashAt = 0
	f.mu.Unlock()
}

var (
	reRandDir = regexp.MustCompile(`^\d+_\d+$`)
	reNum     = regexp.MustCompile(`\d+`)
)

// Classify maps a path to a small set of classes (evidence: distinct crash sites).
func Classify(p string) string {
	parts := strings.Split(filepath.ToSlash(p), "/")
	base := parts[len(parts)-1]
	inCheckpoint := false
	depthRand := -1
	for i, s := range parts {
		if s == "checkpoint" {
			inCheckpoint = true
		}
		if reRandDir.MatchString(s) && depthRand < 0 {
			depthRand = i
		}
	}
	pre := ""
	if inCheckpoint {
		pre = "checkpoint/"
	}
	switch {
	case base == "current":
		return "current"
	case base == "current.updating":
		return "current.updating"
	case strings.HasPrefix(base, "ingest-"):
		return "ingest.sst"
	case base == "checkpoint":
		return "checkpoint-dir"
	case reRandDir.MatchString(base):
		return pre + "dbdir"
	case strings.HasSuffix(base, ".sst"):
		return pre + "sst"
	case strings.HasPrefix(base, "MANIFEST"):
		return pre + "MANIFEST"
	case strings.HasPrefix(base, "OPTIONS"):
		return pre + "OPTIONS"
	case strings.HasPrefix(base, "CURRENT"):
		return pre + "pebble-CURRENT"
	case base == "LOCK":
		return pre + "LOCK"
	case strings.HasSuffix(base, ".log"):
		return pre + "wal"
	case strings.HasPrefix(base, "marker."):
		return pre + "marker"
	case strings.HasPrefix(base, "temporary."):
		return pre + "temporary"
	}
	if depthRand >= 0 {
		return pre + "dbdir/" + reNum.ReplaceAllString(base, "N")
	}
	switch len(parts) {
	case 0, 1, 2:
		return "base"
	case 3:
		return "hostdir"
	case 4:
		return "tabledir"
	}
	return "other:" + reNum.ReplaceAllString(base, "N")
}

func (f *FS) op(kind, path string) error {
	f.mu.Lock()
	f.n++
	o := Op{N: f.n, Kind: kind, Class: Classify(path), Phase: f.phase, Path: path}
	if f.keepLog {
		f.log = append(f.log, o)
	}
	fire := f.crashAt > 0 && f.n >= f.crashAt && !f.crashed
	if fire {
		f.crashed = true
	}
	kill := f.killAt > 0 && f.n >= f.killAt && !f.killed
	if kill {
		f.killed = true
	}
	fail := f.failAt > 0 && f.n == f.failAt && !f.failed
	if fail {
		f.failed = true
	}
	d := f.delay
	f.mu.Unlock()
	if kill {
		// "the process dies here": make everything done so far durable (the operating system keeps
		// what a killed process wrote), and let nothing that happens afterwards become durable —
		// the zombie may go on working on the volatile state, RestartAfterKill discards that.
		f.syncAll("/")
		f.mem.SetIgnoreSyncs(true)
	}
	if fire {
		f.mem.SetIgnoreSyncs(true)
	}
	if d != nil {
		d(o)
	}
	if fail {
		return ErrInjected
	}
	return nil
}

// vfs.FS ----------------------------------------------------------------------------------

func (f *FS) Create(name string) (vfs.File, error) {
	if err := f.op("create", name); err != nil {
		return nil, err
	}
	fl, err := f.mem.Create(name)
	if err != nil {
		return nil, err
	}
	return &file{File: fl, fs: f, path: name}, nil
}

func (f *FS) Link(oldname, newname string) error {
	if err := f.op("link", newname); err != nil {
		return err
	}
	return f.mem.Link(oldname, newname)
}

func (f *FS) Open(name string, opts ...vfs.OpenOption) (vfs.File, error) {
	fl, err := f.mem.Open(name, opts...)
	if err != nil {
		return nil, err
	}
	return &file{File: fl, fs: f, path: name}, nil
}

func (f *FS) OpenDir(name string) (vfs.File, error) {
	fl, err := f.mem.OpenDir(name)
	if err != nil {
		return nil, err
	}
	return &file{File: fl, fs: f, path: name, dir: true}, nil
}

func (f *FS) Remove(name string) error {
	if err := f.op("remove", name); err != nil {
		return err
	}
	return f.mem.Remove(name)
}

func (f *FS) RemoveAll(name string) error {
	if err := f.op("removeall", name); err != nil {
		return err
	}
	return f.mem.RemoveAll(name)
}

func (f *FS) Rename(oldname, newname string) error {
	if err := f.op("rename", newname); err != nil {
		return err
	}
	return f.mem.Rename(oldname, newname)
}

func (f *FS) ReuseForWrite(oldname, newname string) (vfs.File, error) {
	if err := f.op("reuse", newname); err != nil {
		return nil, err
	}
	fl, err := f.mem.ReuseForWrite(oldname, newname)
	if err != nil {
		return nil, err
	}
	return &file{File: fl, fs: f, path: newname}, nil
}

func (f *FS) MkdirAll(dir string, perm os.FileMode) error {
	if err := f.op("mkdirall", dir); err != nil {
		return err
	}
	return f.mem.MkdirAll(dir, perm)
}

func (f *FS) Lock(name string) (io.Closer, error) { return f.mem.Lock(name) }

func (f *FS) List(dir string) ([]string, error) { return f.mem.List(dir) }

func (f *FS) Stat(name string) (os.FileInfo, error) { return f.mem.Stat(name) }

func (f *FS) PathBase(path string) string { return f.mem.PathBase(path) }

func (f *FS) PathJoin(elem ...string) string { return f.mem.PathJoin(elem...) }

func (f *FS) PathDir(path string) string { return f.mem.PathDir(path) }

func (f *FS) GetDiskUsage(path string) (vfs.DiskUsage, error) { return f.mem.GetDiskUsage(path) }

// Dump renders the durable+volatile tree (debugging aid for witnesses).
func (f *FS) Dump() string { return f.mem.String() }

type file struct {
	vfs.File
	fs   *FS
	path string
	dir  bool
}

func (fl *file) Write(p []byte) (int, error) {
	if err := fl.fs.op("write", fl.path); err != nil {
		return 0, err
	}
	return fl.File.Write(p)
}

func (fl *file) Sync() error {
	kind := "sync"
	if fl.dir {
		kind = "syncdir"
	} else if st, err := fl.File.Stat(); err == nil && st.IsDir() {
		// a directory opened through Open() is also synced through this path
		kind = "syncdir"
	}
	if err := fl.fs.op(kind, fl.path); err != nil {
		return err
	}
	return fl.File.Sync()
}

func (o Op) String() string {
	return fmt.Sprintf("#%d %s %s [%s] %s", o.N, o.Kind, o.Class, o.Phase, o.Path)
}
