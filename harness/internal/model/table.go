// Package model holds the small executable reference models that the monitors compare
// regatta's observed behaviour with. Nothing here imports regatta's implementation packages
// (only the generated protobuf types, which are the vocabulary of the API).
package model

import (
	"bytes"
	"sort"

	pb "github.com/jamf/regatta/regattapb"
)

// KV is one pair of the reference table.
type KV struct {
	K string
	V []byte
}

// Table is a plain sorted map from non-empty byte-string keys to byte-string values plus the
// two bookkeeping indices a replica reports.
type Table struct {
	M       map[string][]byte
	Applied uint64
	Leader  uint64
}

func NewTable() *Table { return &Table{M: map[string][]byte{}} }

func (t *Table) Clone() *Table {
	c := &Table{M: make(map[string][]byte, len(t.M)), Applied: t.Applied, Leader: t.Leader}
	for k, v := range t.M {
		c.M[k] = v
	}
	return c
}

// Sorted returns the whole content in ascending key order.
func (t *Table) Sorted() []KV {
	out := make([]KV, 0, len(t.M))
	for k, v := range t.M {
		out = append(out, KV{k, v})
	}
	sort.Slice(out, func(i, j int) bool { return out[i].K < out[j].K })
	return out
}

var wildcard = []byte{0}

// InRange tells whether k ∈ [lo, hi) with hi == "\0" meaning +∞.
func InRange(k string, lo, hi []byte) bool {
	if k < string(lo) {
		return false
	}
	if bytes.Equal(hi, wildcard) {
		return true
	}
	return k < string(hi)
}

// Select returns the pairs addressed by (key, rangeEnd): the single key when rangeEnd is
// absent (nil), the right-open range otherwise.
func (t *Table) Select(key, rangeEnd []byte) []KV {
	if rangeEnd == nil {
		if v, ok := t.M[string(key)]; ok {
			return []KV{{string(key), v}}
		}
		return nil
	}
	var out []KV
	for k, v := range t.M {
		if InRange(k, key, rangeEnd) {
			out = append(out, KV{k, v})
		}
	}
	sort.Slice(out, func(i, j int) bool { return out[i].K < out[j].K })
	return out
}

// RangeFull is the model's unbounded answer for a range request (limit ignored).
func (t *Table) RangeFull(req *pb.RequestOp_Range) []KV { return t.Select(req.Key, req.RangeEnd) }

// Expected responses -----------------------------------------------------------------------

// PutResp is what a put must answer.
type PutResp struct {
	Asked bool // prev_kv asked
	Prev  *KV
}

// DelResp is what a (range) delete must answer.
type DelResp struct {
	AskedCount bool
	AskedPrev  bool
	Prev       []KV // all pairs deleted, in key order
}

// RangeResp is the full (uncut) answer to a nested range read together with the request.
type RangeResp struct {
	Req  *pb.RequestOp_Range
	Full []KV
}

// OpResp is one expected response; exactly one member is set.
type OpResp struct {
	Put   *PutResp
	Del   *DelResp
	Range *RangeResp
}

// Result is the expected outcome of one log entry.
type Result struct {
	Value     uint64 // 1 success, 0 failed txn
	Responses []OpResp
	// TxnSucceeded is meaningful for TXN commands.
	TxnSucceeded bool
	IsTxn        bool
}

func (t *Table) put(key, value []byte, prev bool) OpResp {
	r := &PutResp{Asked: prev}
	if prev {
		if v, ok := t.M[string(key)]; ok {
			r.Prev = &KV{string(key), v}
		}
	}
	t.M[string(key)] = append([]byte{}, value...)
	return OpResp{Put: r}
}

func (t *Table) del(key, rangeEnd []byte, prev, count bool) OpResp {
	sel := t.Select(key, rangeEnd)
	for _, kv := range sel {
		delete(t.M, kv.K)
	}
	return OpResp{Del: &DelResp{AskedCount: count, AskedPrev: prev, Prev: sel}}
}

// Apply applies one log entry (index, cmd) and returns what the replica must answer.
func (t *Table) Apply(index uint64, cmd *pb.Command) Result {
	res := Result{Value: 1}
	if cmd.Type == pb.Command_SEQUENCE {
		pending := t.Leader
		t.applySeq(cmd, &res, &pending)
		t.Applied = index
		t.Leader = pending
		return res
	}
	t.applyCmd(cmd, &res, true)
	t.Applied = index
	if cmd.LeaderIndex != nil {
		t.Leader = *cmd.LeaderIndex
	}
	return res
}

// applySeq: a replicated sequence. Leader commands that carry a leader index take effect once, in
// leader order (those at or below the index recorded so far are skipped); a sequence never moves
// the recorded index backwards unless it applied something.
func (t *Table) applySeq(cmd *pb.Command, res *Result, pending *uint64) {
	recorded, applied, fresh := *pending, *pending, false
	for _, c := range cmd.Sequence {
		if c.LeaderIndex != nil {
			if *c.LeaderIndex <= applied {
				continue
			}
			applied = *c.LeaderIndex
		}
		fresh = true
		if c.Type == pb.Command_SEQUENCE {
			t.applySeq(c, res, pending)
		} else {
			t.applyCmd(c, res, false)
		}
	}
	if cmd.LeaderIndex != nil && (fresh || *cmd.LeaderIndex >= recorded) {
		*pending = *cmd.LeaderIndex
	}
}

func (t *Table) applyCmd(cmd *pb.Command, res *Result, top bool) {
	switch cmd.Type {
	case pb.Command_PUT:
		res.Responses = append(res.Responses, t.put(cmd.Kv.GetKey(), cmd.Kv.GetValue(), cmd.PrevKvs))
	case pb.Command_DELETE:
		res.Responses = append(res.Responses, t.del(cmd.Kv.GetKey(), cmd.RangeEnd, cmd.PrevKvs, cmd.Count))
	case pb.Command_PUT_BATCH:
		for _, kv := range cmd.Batch {
			res.Responses = append(res.Responses, t.put(kv.Key, kv.Value, false))
		}
	case pb.Command_DELETE_BATCH:
		for _, kv := range cmd.Batch {
			res.Responses = append(res.Responses, t.del(kv.Key, nil, false, false))
		}
	case pb.Command_TXN:
		ok, ops := t.Txn(cmd.Txn.GetCompare(), cmd.Txn.GetSuccess(), cmd.Txn.GetFailure())
		res.Responses = append(res.Responses, ops...)
		if top {
			res.IsTxn = true
			res.TxnSucceeded = ok
			if !ok {
				res.Value = 0
			}
		}
	case pb.Command_SEQUENCE:
		for _, c := range cmd.Sequence {
			t.applyCmd(c, res, false)
		}
	case pb.Command_DUMMY:
	}
}

// EvalCompare evaluates the conjunction of predicates on the current state.
func (t *Table) EvalCompare(cmps []*pb.Compare) bool {
	for _, c := range cmps {
		sel := t.Select(c.Key, c.RangeEnd)
		if len(sel) == 0 {
			return false // missing key / empty range
		}
		for _, kv := range sel {
			if !cmpOne(c, kv.V) {
				return false
			}
		}
	}
	return true
}

func cmpOne(c *pb.Compare, stored []byte) bool {
	if c.TargetUnion == nil {
		return true // existence-only
	}
	target := c.GetValue()
	switch c.Result {
	case pb.Compare_EQUAL:
		return bytes.Equal(stored, target)
	case pb.Compare_NOT_EQUAL:
		return !bytes.Equal(stored, target)
	case pb.Compare_GREATER:
		return bytes.Compare(stored, target) > 0
	case pb.Compare_LESS:
		return bytes.Compare(stored, target) < 0
	}
	return true
}

// Txn evaluates and executes a transaction on t.
func (t *Table) Txn(cmps []*pb.Compare, succ, fail []*pb.RequestOp) (bool, []OpResp) {
	ok := t.EvalCompare(cmps)
	ops := fail
	if ok {
		ops = succ
	}
	var out []OpResp
	for _, op := range ops {
		switch o := op.Request.(type) {
		case *pb.RequestOp_RequestRange:
			out = append(out, OpResp{Range: &RangeResp{Req: o.RequestRange, Full: t.RangeFull(o.RequestRange)}})
		case *pb.RequestOp_RequestPut:
			out = append(out, t.put(o.RequestPut.Key, o.RequestPut.Value, o.RequestPut.PrevKv))
		case *pb.RequestOp_RequestDeleteRange:
			d := o.RequestDeleteRange
			out = append(out, t.del(d.Key, d.RangeEnd, d.PrevKv, d.Count))
		}
	}
	return ok, out
}

// Equal compares content and bookkeeping.
func (t *Table) Equal(o *Table) bool {
	if t.Applied != o.Applied || t.Leader != o.Leader || len(t.M) != len(o.M) {
		return false
	}
	for k, v := range t.M {
		w, ok := o.M[k]
		if !ok || !bytes.Equal(v, w) {
			return false
		}
	}
	return true
}
