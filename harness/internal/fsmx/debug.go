package fsmx

import (
	"os"

	"go.uber.org/zap"
	"go.uber.org/zap/zapcore"
)

func init() {
	// regatta hands its zap logger to pebble; pebble's invariant checks (enabled in -race builds)
	// report through Logger.Fatalf, which on a no-op zap logger is a SILENT os.Exit(1). Turn a
	// fatal log entry into a panic so that it is at least visible in the driver's stderr.
	// VERIF_DEBUG=1 additionally shows regatta's own log output.
	if os.Getenv("VERIF_DEBUG") != "" {
		l, _ := zap.NewDevelopment(zap.WithFatalHook(zapcore.WriteThenPanic))
		zap.ReplaceGlobals(l)
		return
	}
	enc := zapcore.NewConsoleEncoder(zap.NewDevelopmentEncoderConfig())
	core := zapcore.NewCore(enc, zapcore.Lock(os.Stderr), zapcore.FatalLevel)
	zap.ReplaceGlobals(zap.New(core, zap.WithFatalHook(zapcore.WriteThenPanic)))
}
