// Package fsmx drives the real table state machine (storage/table/fsm) exactly the way
// dragonboat does: Open, Update with marshalled commands, Lookup with the exported request
// types, PrepareSnapshot/SaveSnapshot/RecoverFromSnapshot, Sync, Close — on an in-memory
// file system and with shared pebble caches like table.Manager creates them.
package fsmx

import (
	"bytes"
	"fmt"
	"sync"

	"github.com/cockroachdb/pebble"
	"github.com/cockroachdb/pebble/vfs"
	pb "github.com/jamf/regatta/regattapb"
	"github.com/jamf/regatta/storage/table/fsm"
	"github.com/jamf/regatta/util/iter"
	sm "github.com/lni/dragonboat/v4/statemachine"

	"verifharness/internal/model"
)

var (
	cacheOnce  sync.Once
	blockCache *pebble.Cache
	tableCache *pebble.TableCache
)

// Caches returns process-wide shared caches (production-like).
func Caches() (*pebble.Cache, *pebble.TableCache) {
	cacheOnce.Do(func() {
		blockCache = pebble.NewCache(64 << 20)
		tableCache = pebble.NewTableCache(blockCache, 4, 1024)
	})
	return blockCache, tableCache
}

const BaseDir = "/data"

// T wraps one FSM instance.
type T struct {
	FS      vfs.FS
	Name    string
	Shard   uint64
	Node    uint64
	Type    fsm.SnapshotRecoveryType
	SM      sm.IOnDiskStateMachine
	Applied func(uint64)
}

// New creates (does not open) an instance on fs.
func New(fs vfs.FS, name string, shard, node uint64, srt fsm.SnapshotRecoveryType, af func(uint64)) *T {
	bc, tc := Caches()
	t := &T{FS: fs, Name: name, Shard: shard, Node: node, Type: srt, Applied: af}
	t.SM = fsm.New(name, BaseDir, fs, bc, tc, srt, af)(shard, node)
	return t
}

// NewMem creates the base directory on a fresh MemFS and returns it.
func NewMem() vfs.FS {
	fs := vfs.NewMem()
	_ = fs.MkdirAll(BaseDir, 0o755)
	return fs
}

// Fresh returns an opened instance on a new MemFS.
func Fresh(name string, srt fsm.SnapshotRecoveryType) (*T, error) {
	t := New(NewMem(), name, 10001, 1, srt, nil)
	_, err := t.SM.Open(nil)
	return t, err
}

// Reopen closes nothing; it builds a new FSM object on the same FS and opens it.
func (t *T) Reopen() (*T, uint64, error) {
	n := New(t.FS, t.Name, t.Shard, t.Node, t.Type, t.Applied)
	idx, err := n.SM.Open(nil)
	return n, idx, err
}

// Entry builds a log entry from a command.
func Entry(index uint64, cmd *pb.Command) sm.Entry {
	b, err := cmd.MarshalVT()
	if err != nil {
		panic(err)
	}
	return sm.Entry{Index: index, Cmd: b}
}

// Decoded returns the command as the state machine sees it (after the wire).
func Decoded(e sm.Entry) *pb.Command {
	c := &pb.Command{}
	if err := c.UnmarshalVT(e.Cmd); err != nil {
		panic(err)
	}
	return c
}

// Out is the observable outcome of one entry.
type Out struct {
	Value  uint64
	Result *pb.CommandResult // nil when no data was returned
}

// Update applies a batch of entries in one apply call.
func (t *T) Update(entries []sm.Entry) ([]Out, error) {
	cp := make([]sm.Entry, len(entries))
	copy(cp, entries)
	res, err := t.SM.Update(cp)
	if err != nil {
		return nil, err
	}
	if len(res) != len(entries) {
		return nil, fmt.Errorf("Update returned %d entries for %d", len(res), len(entries))
	}
	out := make([]Out, len(res))
	for i, e := range res {
		out[i].Value = e.Result.Value
		if len(e.Result.Data) > 0 {
			r := &pb.CommandResult{}
			if err := r.UnmarshalVT(e.Result.Data); err != nil {
				return nil, fmt.Errorf("result of entry %d does not decode: %w", e.Index, err)
			}
			out[i].Result = r
		}
	}
	return out, nil
}

func (t *T) Range(req *pb.RequestOp_Range) (*pb.ResponseOp_Range, error) {
	v, err := t.SM.Lookup(req)
	if err != nil {
		return nil, err
	}
	r, ok := v.(*pb.ResponseOp_Range)
	if !ok {
		return nil, fmt.Errorf("Lookup(range) returned %T", v)
	}
	return r, nil
}

// Stream returns all chunks of an iterator lookup.
func (t *T) Stream(req *pb.RequestOp_Range) ([]*pb.ResponseOp_Range, error) {
	v, err := t.SM.Lookup(fsm.IteratorRequest{RangeOp: req})
	if err != nil {
		return nil, err
	}
	seq, ok := v.(iter.Seq[*pb.ResponseOp_Range])
	if !ok {
		return nil, fmt.Errorf("Lookup(iterator) returned %T", v)
	}
	return iter.Collect(seq), nil
}

// StreamDeferred obtains the lazily evaluated sequence, runs between() (other requests served by
// the same process in the meantime), and only then consumes it — the way the gRPC server does.
func (t *T) StreamDeferred(req *pb.RequestOp_Range, between func()) ([]*pb.ResponseOp_Range, error) {
	v, err := t.SM.Lookup(fsm.IteratorRequest{RangeOp: req})
	if err != nil {
		return nil, err
	}
	seq, ok := v.(iter.Seq[*pb.ResponseOp_Range])
	if !ok {
		return nil, fmt.Errorf("Lookup(iterator) returned %T", v)
	}
	if between != nil {
		between()
	}
	return iter.Collect(seq), nil
}

// StreamRewalk is StreamDeferred on a sequence that is walked three times: completely, then only up
// to its first message (a consumer that peeks and stops), then completely again. iter.Seq values are
// re-iterable and this one opens a fresh engine iterator per walk, so on an unchanged table the
// first and the third walk must describe the same read.
func (t *T) StreamRewalk(req *pb.RequestOp_Range, between func()) (first, again []*pb.ResponseOp_Range, err error) {
	v, err := t.SM.Lookup(fsm.IteratorRequest{RangeOp: req})
	if err != nil {
		return nil, nil, err
	}
	seq, ok := v.(iter.Seq[*pb.ResponseOp_Range])
	if !ok {
		return nil, nil, fmt.Errorf("Lookup(iterator) returned %T", v)
	}
	if between != nil {
		between()
	}
	first = iter.Collect(seq)
	seq(func(*pb.ResponseOp_Range) bool { return false })
	again = iter.Collect(seq)
	return first, again, nil
}

func (t *T) Txn(req *pb.TxnRequest) (*pb.TxnResponse, error) {
	v, err := t.SM.Lookup(req)
	if err != nil {
		return nil, err
	}
	r, ok := v.(*pb.TxnResponse)
	if !ok {
		return nil, fmt.Errorf("Lookup(txn) returned %T", v)
	}
	return r, nil
}

func (t *T) LocalIndex() (uint64, error) {
	v, err := t.SM.Lookup(fsm.LocalIndexRequest{})
	if err != nil {
		return 0, err
	}
	return v.(*fsm.IndexResponse).Index, nil
}

func (t *T) LeaderIndex() (uint64, error) {
	v, err := t.SM.Lookup(fsm.LeaderIndexRequest{})
	if err != nil {
		return 0, err
	}
	return v.(*fsm.IndexResponse).Index, nil
}

// All is the request addressing every user key.
func All() *pb.RequestOp_Range {
	return &pb.RequestOp_Range{Key: []byte{0}, RangeEnd: []byte{0}}
}

// Dump reads the whole user content through the streaming lookup plus both indices.
func (t *T) Dump() (*model.Table, error) {
	chunks, err := t.Stream(All())
	if err != nil {
		return nil, err
	}
	m := model.NewTable()
	var last []byte
	for _, c := range chunks {
		for _, kv := range c.Kvs {
			if last != nil && bytes.Compare(last, kv.Key) >= 0 {
				return nil, fmt.Errorf("dump not strictly ascending at %q", kv.Key)
			}
			last = append(last[:0], kv.Key...)
			m.M[string(kv.Key)] = append([]byte{}, kv.Value...)
		}
	}
	if m.Applied, err = t.LocalIndex(); err != nil {
		return nil, err
	}
	if m.Leader, err = t.LeaderIndex(); err != nil {
		return nil, err
	}
	return m, nil
}

// Hash returns the raw content hash (includes bookkeeping keys).
func (t *T) Hash() (uint64, error) { return t.SM.(*fsm.FSM).GetHash() }

// Snapshot runs PrepareSnapshot + SaveSnapshot and returns the stream bytes.
func (t *T) Snapshot() ([]byte, error) {
	ctx, err := t.SM.PrepareSnapshot()
	if err != nil {
		return nil, err
	}
	var buf bytes.Buffer
	if err := t.SM.SaveSnapshot(ctx, &buf, nil); err != nil {
		return nil, err
	}
	return buf.Bytes(), nil
}

func (t *T) Recover(snap []byte) error {
	return t.SM.RecoverFromSnapshot(bytes.NewReader(snap), nil)
}

func (t *T) Close() error { return t.SM.Close() }

// Diff describes the first difference between two tables ("" when equal).
func Diff(got, exp *model.Table) string {
	if got.Applied != exp.Applied {
		return fmt.Sprintf("applied index %d, expected %d", got.Applied, exp.Applied)
	}
	if got.Leader != exp.Leader {
		return fmt.Sprintf("leader index %d, expected %d", got.Leader, exp.Leader)
	}
	return DiffContent(got, exp)
}

func DiffContent(got, exp *model.Table) string {
	for k, v := range exp.M {
		w, ok := got.M[k]
		if !ok {
			return fmt.Sprintf("key %q missing", trunc(k))
		}
		if !bytes.Equal(v, w) {
			return fmt.Sprintf("key %q holds %q, expected %q", trunc(k), trunc(string(w)), trunc(string(v)))
		}
	}
	for k := range got.M {
		if _, ok := exp.M[k]; !ok {
			return fmt.Sprintf("unexpected key %q", trunc(k))
		}
	}
	return ""
}

func trunc(s string) string {
	if len(s) > 32 {
		return s[:32] + fmt.Sprintf("…(%dB)", len(s))
	}
	return s
}
