package fsmx

import (
	"fmt"
	"math/rand"
	"runtime"
	"sync"
	"sync/atomic"
	"time"

	pb "github.com/jamf/regatta/regattapb"
	"github.com/jamf/regatta/storage/table/fsm"
	sm "github.com/lni/dragonboat/v4/statemachine"
)

// cmdWriter parses every Write of a table snapshot stream (one marshalled PUT command per call).
type cmdWriter struct {
	kvs map[string]string
	n   int
	err error
}

func (w *cmdWriter) Write(p []byte) (int, error) {
	c := &pb.Command{}
	if err := c.UnmarshalVT(p); err != nil {
		w.err = err
		return 0, err
	}
	w.kvs[string(c.Kv.GetKey())] = string(c.Kv.GetValue())
	w.n++
	return len(p), nil
}

// CaptureStats is what a CaptureUnderWrites run observed.
type CaptureStats struct {
	Captures         int64
	DistinctIndices  int
	WritesApplied    int64
	CapturesMidWrite int64 // captures whose declared index was not the last one applied when the capture returned
}

// CaptureUnderWrites: one goroutine applies single-entry apply calls (puts / deletes of a few keys,
// every value unique) as fast as it can, `readers` goroutines take table snapshot streams
// (Lookup(SnapshotRequest), what the leader's snapshot service and the backup do) back to back.
// Every capture declares an index N and carries pairs: they must be exactly the table after the
// first N entries. Returns a description of the first capture that is not ("" if none).
func CaptureUnderWrites(seed int64, recovery fsm.SnapshotRecoveryType, captures int, readers int) (string, CaptureStats, error) {
	t, err := Fresh("t", recovery)
	if err != nil {
		return "", CaptureStats{}, err
	}
	defer t.Close()
	g := rand.New(rand.NewSource(seed))
	var (
		mu     sync.Mutex
		states = []map[string]string{{}} // states[i] = content after entry i
		stop   atomic.Bool
		bad    atomic.Value
		st     CaptureStats
		done   atomic.Int64
		wg     sync.WaitGroup
		seen   sync.Map
	)
	keys := []string{"a", "b", "c", "d", "e", "f"}
	wg.Add(1)
	go func() {
		defer wg.Done()
		cur := map[string]string{}
		for i := uint64(1); !stop.Load(); i++ {
			// at most a few writes per capture: the store stays small (an iterator has to step over
			// every obsolete version), the writer is busy whenever a capture starts
			for int64(i) > 4*atomic.LoadInt64(&st.Captures)+64 && !stop.Load() {
				runtime.Gosched()
			}
			k := keys[g.Intn(len(keys))]
			var c *pb.Command
			if g.Intn(5) == 0 {
				c = &pb.Command{Table: []byte("t"), Type: pb.Command_DELETE, Kv: &pb.KeyValue{Key: []byte(k)}}
				delete(cur, k)
			} else {
				v := fmt.Sprintf("v%d", i)
				c = &pb.Command{Table: []byte("t"), Type: pb.Command_PUT, Kv: &pb.KeyValue{Key: []byte(k), Value: []byte(v)}}
				cur[k] = v
			}
			cp := make(map[string]string, len(cur))
			for kk, vv := range cur {
				cp[kk] = vv
			}
			mu.Lock()
			states = append(states, cp)
			mu.Unlock()
			if _, err := t.SM.Update([]sm.Entry{Entry(i, c)}); err != nil {
				bad.Store("update error: " + err.Error())
				return
			}
			atomic.AddInt64(&st.WritesApplied, 1)
		}
	}()
	for rd := 0; rd < readers; rd++ {
		wg.Add(1)
		go func() {
			defer wg.Done()
			var lastSeen int64 = -1
			for done.Add(1) <= int64(captures) && bad.Load() == nil {
				// let the writer get ahead of the previous capture (bounded): captures of the same
				// index over and over observe nothing new
				for spin := 0; spin < 2000 && atomic.LoadInt64(&st.WritesApplied) == lastSeen; spin++ {
					runtime.Gosched()
				}
				lastSeen = atomic.LoadInt64(&st.WritesApplied)
				w := &cmdWriter{kvs: map[string]string{}}
				v, err := t.SM.Lookup(fsm.SnapshotRequest{Writer: w})
				if err != nil || w.err != nil {
					bad.Store(fmt.Sprintf("capture error: %v %v", err, w.err))
					return
				}
				idx := v.(*fsm.SnapshotResponse).Index
				mu.Lock()
				var exp map[string]string
				if int(idx) < len(states) {
					exp = states[idx]
				}
				last := len(states) - 1
				mu.Unlock()
				atomic.AddInt64(&st.Captures, 1)
				seen.Store(idx, true)
				if int(idx) < last {
					atomic.AddInt64(&st.CapturesMidWrite, 1)
				}
				if exp == nil {
					bad.Store(fmt.Sprintf("capture declares index %d, which was never applied", idx))
					return
				}
				if w.n != len(w.kvs) {
					bad.Store(fmt.Sprintf("capture declaring index %d carries %d records for %d distinct keys", idx, w.n, len(w.kvs)))
					return
				}
				if len(w.kvs) != len(exp) {
					bad.Store(fmt.Sprintf("capture declares index %d and carries %v; the table after %d entries is %v", idx, w.kvs, idx, exp))
					return
				}
				for k, v := range exp {
					if w.kvs[k] != v {
						bad.Store(fmt.Sprintf("capture declares index %d and carries %v; the table after %d entries is %v", idx, w.kvs, idx, exp))
						return
					}
				}
			}
		}()
	}
	// readers end by count; then the writer
	go func() {
		for done.Load() <= int64(captures) && bad.Load() == nil {
			runtimeGosched()
		}
		stop.Store(true)
	}()
	wg.Wait()
	stop.Store(true)
	seen.Range(func(_, _ any) bool { st.DistinctIndices++; return true })
	if v := bad.Load(); v != nil {
		return v.(string), st, nil
	}
	return "", st, nil
}

func runtimeGosched() { time.Sleep(200 * time.Microsecond) }
