#!/bin/bash
# usage: seed_wave2.sh <name> <checks> [needs...]   (auto mode, wave-2 outputs)
cd /verif
n=$1; checks=$2; shift 2
L=/var/tmp/svlog; mkdir -p $L
python3 tools/seed_verify.py "$n" --src /var/tmp/seed2/out/$n --auto --checks "$checks" --needs "$*" --suite "./cmd/... ./security/... ./storage/... ./regattaserver/... ./replication/..." > $L/$n.log 2>&1
