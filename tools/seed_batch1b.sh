#!/bin/bash
cd /verif
S=/var/tmp/seed/out; F=storage/table/fsm/zz_seed_demo_test.go; L=/var/tmp/svlog; mkdir -p $L
v() { n=$1; shift; python3 tools/seed_verify.py "$n" --src $S/$n "$@" > $L/$n.log 2>&1; }
v c09-1 --demo zz_seed_demo_test.go:$F --run "-run TestSeedDemo ./storage/table/fsm/" --checks C09 --needs "another key-encoding operation between opening a lazy range read and its first message (pooled buffer aliasing)"
v c09-2 --demo zz_seed_demo_test.go:$F --run "-run TestSeedDemo ./storage/table/fsm/" --checks C09 --needs ">4 MiB range made of >130 small pairs per message (framing overhead not counted)"
v c02-2 --demo zz_seed_demo_test.go:$F --run "-run TestSeedDemo ./storage/table/fsm/" --checks C02 --needs "read-only txn without predicates and >=2 reads, concurrent write commit between its reads"
