#!/bin/bash
cd /verif
S=/var/tmp/seed/out; L=/var/tmp/svlog; mkdir -p $L
v() { n=$1; shift; python3 tools/seed_verify.py "$n" --src $S/$n "$@" > $L/$n.log 2>&1; }
v c07-1 --demo zz_seed_demo_test.go:storage/table/zz_seed_demo_test.go --run "-run TestSeedDemo ./storage/table/" --checks C07 --needs "a write applied to the leader table while the snapshot stream is being produced (index read after the iteration from the live DB)"
v c07-2 --demo zz_seed_demo_test.go:storage/table/zz_seed_demo_test.go --run "-run TestSeedDemo ./storage/table/" --checks C07 --needs "leader stream whose batch threshold is crossed exactly by the last data record, or an empty table (final marker's leader index never proposed)"
v c13-1 --demo zz_seed_demo_test.go:storage/kv/zz_seed_demo_test.go --run "-run TestSeedDemo1 ./storage/kv/" --checks C13,C14,C15 --needs "two proposals applied in one Update batch, the later one with version 0 / empty value on the key just written"
v c13-2 --demo zz_seed_demo_test.go:storage/kv/zz_seed_demo_test.go --run "-run TestSeedDemo2 ./storage/kv/" --checks C13 --needs "snapshot installed on a populated (lagging) metadata replica with a key deleted in the gap"
