#!/usr/bin/env python3
"""Generates /verif/MANIFEST.json from the table below (one place to keep it current)."""
import json, os, subprocess, sys

HERE = os.path.dirname(os.path.dirname(os.path.abspath(__file__)))

# id -> (category, technique, level text, level note)
CHECKS = {
 "C01": ("exploration",
  "runtime monitoring: generated command histories on the real FSM and a real single-node engine, judged online against a reference sorted map",
  "Every response, sampled read, applied/leader index and the final dump of seeded command histories (nasty keys, all flag combinations, random apply batches, 1-2 MiB values) is compared with an executable reference map; held on the histories produced, nothing claimed beyond them.",
  "Trusts the reference model (internal/model) and pebble/dragonboat as libraries; keys non-empty; fields nobody asked for are not judged."),
 "C02": ("exploration",
  "runtime monitoring: generated transactions embedded in apply batches of the real FSM, differential write-path vs read-only path, concurrent-reader view monitor, range predicates over more than one read message, engine run incl. slow commits",
  "Succeeded flag, n-th response and post-state of seeded transactions (range/existence/ordering predicates, overlapping ops, after uncommitted batch content) are compared with a reference model; read-only transactions are run through both Lookup and Update and must agree; concurrent readers must only ever see whole-transaction states, also for apply calls above the 16 MiB batch bound; the succeeded flag of a read-only transaction must agree with what its own branch reads while the table is being rewritten.",
  "Trusts the reference model; crash atomicity is delegated to C04's crash histories (they contain transactions)."),
 "C03": ("exploration",
  "runtime monitoring: differential replay of one log on several real replicas (different apply batching, close/reopen, snapshot transfer in all format pairs) + reference model",
  "Per-entry results, raw content hash, dump and both indices of variant replicas are compared pairwise with a reference replica fed one entry per apply call, and with the model, for seeded logs mixing leader-indexed and plain entries; savers keep applying between PrepareSnapshot and SaveSnapshot and receivers are judged right after recovery against the prefix the snapshot stands for.",
  "Clean close/reopen only (crashes are C04); snapshot transfer driven through the state machine interface as dragonboat drives it."),
 "C09": ("exploration",
  "runtime monitoring: relational oracle (prefix, ascending, limit, truthful more, message size, losslessness) over reads of the real FSM and real gRPC streams; streams requested with and without a deadline (gRPC and engine); engine sequences walked again after a walk that stopped at its first message; point-in-time view monitor with a concurrent writer",
  "Every read of a request family (limits m-2..m+2 and unlimited; full/keys_only/count_only; single read and stream) over generated contents incl. multi-MiB tables aligned on the 4 MiB cut is judged against the model's full answer; streams over real gRPC with the client's default message limit.",
  "Packing of pairs into messages is not judged; transport limit = gRPC default 4 MiB as regatta's clients use."),
 "C12": ("exploration",
  "runtime monitoring: round-trip / injectivity / order oracles over an exhaustive small key space plus random and extreme keys; bounds observed through the real FSM",
  "All 780 keys over {00,01,02,FE,FF}^1..4 and all their pairs are checked exhaustively, plus >=150k random/extreme keys and pairs and sorted triples; wildcard and bookkeeping isolation additionally through range reads/deletes with extreme bounds on the real state machine, followed by reopen; an addressing layer (multi-predicate transactions on both paths over tables with concatenation-alias keys, range reads in the apply call that wrote keys of mixed lengths, streamed ranges drained after other requests) is judged against the reference table.",
  "Accepted key length 1..1024 bytes; the streaming key.Decoder (unused by production code) is observed but not judged."),
 "C04": ("fault_enumeration",
  "runtime monitoring with fault injection: crash-simulating strict in-memory FS (crash before every k-th mutating FS operation), recovery judged against the model's log prefixes",
  "Every mutating file-system operation boundary of seeded scenarios (first open, apply, Sync, close/reopen, snapshot recovery in all format pairs, stopped recovery) is used as a crash point (all k for small scenarios, every distinct site + random k for larger ones, plus second crashes during recovery); after each crash a new FSM is opened and must report an index >= the last completed Sync, show exactly the model state at that index, and reach the no-crash final state after replay with per-entry results equal to the model's.",
  "Fault model as stated in the property (strict MemFS: unsynced data and directory entries lost, synced ones kept); no torn writes / partial persistence; pebble trusted as a library."),
 "C06": ("exploration",
  "runtime monitoring: real Simple/Cached log readers over a scripted dragonboat-contract log (differential cached vs uncached + interval oracle), the real LogServer.Replicate over gRPC on a real compacting Raft log judged against the harness's own proposal record, and the real `regatta leader` binary under message-size flags with single entries above the limit",
  "Reader level: seeded query sequences shaped like Replicate calls (several calls in progress, late compaction events, all entry types, size limits on exact boundaries, cache sizes 1..100) judged per query; server level: every start index 0..applied+2 after real histories with real log compaction, three message-size limits, cached and uncached server, byte-exact command comparison.",
  "The scripted log mirrors dragonboat v4's LogReader contract as read from the module source; cache staleness between a compaction and the delivery of its event is allowed as production delivers it asynchronously."),
 "C08": ("exploration",
  "runtime monitoring: snapshot transfer oracle against the model (writes between prepare and save, dirty receivers, all format pairs), stop-signal sweep over the stream, install interrupted at every file-system operation by a process kill, a power loss and an I/O error, read/install overlap schedules in child processes with process death / hang as observed outcomes",
  "Receivers must equal the saver at prepare time (content, applied and leader index), keep nothing of their previous content, survive a restart; interrupted saves/recovers must report ErrSnapshotStopped and leave the old state readable; reads overlapping an install (eager, lazily consumed, in-flight, via callback and via util/iter.Pull) must show old or new state or fail cleanly. Three ways in which such reads bring the process down on the unchanged tree are listed as known findings.",
  "Crash (not stop) during save/recover is C04's enumeration; dragonboat's documented concurrency (Lookup concurrent with RecoverFromSnapshot) is assumed reachable; thorough tier runs the overlap children under the race detector."),
 "C13": ("exploration",
  "runtime monitoring: real kv.LFSM against an independent CAS-map model with replica differencing and snapshot transfer; real RaftStore histories checked with porcupine; race detector on concurrent Lookup/Update/Snapshot",
  "Seeded set/delete sequences with stale/current/zero/future versions and nasty keys are applied to two real replicas with different batching; every entry result and every get/exists/glob/list answer is compared with the model and across replicas, snapshots taken at random points must restore to equal stores; concurrent client histories on a real Raft-backed store are checked for linearizability against a CAS-register model.",
  "Behaviour on missing keys is observed, not judged (the statement constrains existing keys); glob matcher of the model cross-checked against path.Match."),
 "C15": ("exploration",
  "runtime monitoring with a deterministic scheduler: real table.Manager lease calls over the real metadata state machine, every store operation gated; depth-first enumeration of all interleavings for the listed scripts; linearization-point oracle; race-detector stress over a real RaftStore",
  "All interleavings at the granularity of single metadata-store operations are enumerated for every script of 2 nodes x <=2 calls and 3 nodes x 1 call (exhaustive), sampled/enumerated for larger ones; at each successful lease write the previous record must be absent, the caller's or expired, the shadow holder set never exceeds one, returns only remove the caller's lease.",
  "Expiry decided from +-1h durations, never from sleeping; managers reused per worker (NodeIDs only compared for equality); exhaustive flags per script are in the evidence."),
 "C17": ("exploration",
  "runtime monitoring (black box): the real regatta binary (leader and follower) probed with generated credentials over gRPC; certificate oracle = predicate over the construction parameters of run-time minted certificates; state read back after every refused call",
  "Every method of the Maintenance and Tables services (enumerated from the service descriptors) is called with 47 credential classes (missing, near-miss, wrong scheme, other service's token ...) and must answer Unauthenticated unless the token is exactly right, with no effect visible through the API; KV/Cluster stay reachable; TLS endpoints (in-process TLSInfo.ServerConfig and the binary's --api.* flags) accept only certificates chaining to the trusted CA with exactly the allowed CN / valid for the allowed hostname, decided by RPC round trips.",
  "Only wiring reachable from the command line of the real binary is observable; accept-side variants outside the statement are recorded, not judged."),
 "C19": ("exploration",
  "runtime monitoring: real shardView/mergeShardInfo/gossip delegate (through the export shim) fed Raft-consistent update multisets in every permutation (<=6 updates) and through multi-view gossip scripts, judged against the join; live header monitor on a 3-node cluster with forced leader transfers; race detector",
  "After every delivery step each view must equal the join of what reached it and never move to a lower term or from a leader to none; final views must be identical across all deliveries of a multiset (exhaustive for <=6 updates); live: per (observer,node,shard) the term in response headers never decreases and the leader never returns to 0, and headers converge to Raft's answer after transfers.",
  "Multisets are Raft-consistent by construction (one leader per term, one membership per config-change index); convergence bounds are watchdogs (inconclusive on expiry), a stale-leader-after-transfer observation is recorded in the evidence, not judged."),
 "C10": ("exploration",
  "runtime monitoring: client-boundary history recording on a real 3-node cluster with one artificially lagging replica; offline history checker (revision-order replay through the reference model, read windows) plus porcupine on register keys; self-consistency probes (read-only transactions with slow predicates, multi-message streams over a table whose two markers are rewritten together); linearizable reads on a cut-off replica that still believes to lead; race detector build",
  "Concurrent histories (puts, deletes, bounded range deletes, transactions incl. empty-branch and read-only ones, linearizable and serializable reads on every node, half of the reads on the lagging replica right after the client's own acknowledged write) are judged (writers also issue empty-branch transactions in simultaneous bursts; probe readers run self-consistency read-only transactions with slow predicates): revisions non-zero, distinct and real-time consistent; replay in revision order explains every response; linearizable reads and read-only txns match a state inside their real-time window, serializable reads some existing prefix.",
  "No client-visible faults injected: a run with a failed/timed-out write is discarded as inconclusive; lag is produced by stalling the apply path of node 3 (AppliedIndexListener); history taken at the engine API the gRPC service calls."),
 "C16": ("exploration",
  "runtime monitoring (black box): the real -race regatta binary (leader, and follower forwarding to it) driven with generated valid / single-rule-violating requests and raw mutated wire bytes; independent validator for the expected status class; full table dumps after every request compared with the reference model; process liveness, stderr (panic / fatal / race / checkptr) and clean SIGTERM exit observed",
  "A fixed catalogue (every documented rule per method, each also nested in executed and non-executed transaction branches, boundary-size keys/values, hostile table names, every wire mutation per method) and a seeded request stream are sent; refused requests must leave every dump unchanged, accepted ones must change it exactly as the model says, and the serving process must stay alive.",
  "Raw wire mutants are judged only on liveness and refused => unchanged; a pebble assertion that exists only in -race builds (inverted read bounds reaching an sstable) and race reports inside regatta's copy of iter.Pull are counted, not judged."),
 "C14": ("exploration",
  "runtime monitoring: seeded catalogue histories on a real engine (1 and 3 nodes; a three-node restore / creations-through-all-nodes-at-once / node-away-and-back scenario in both tiers; restores that break off; reconciliation passes racing creates and deletes) judged online against a catalogue model with per-table content models; racing creations; reconciliation observed through the running-shard list; pure diff observed through the export shim; process death supervised",
  "create/delete/restore/list/lookup over 3 names interleaved with data operations: success conditions, strictly growing ids (also across delete/recreate and restore), emptiness of (re)created tables, exact restored content, cross-table isolation (all tables dumped after every operation), running user shards == catalogued shards after a reconciliation pass; of racing creations of one name at most one succeeds and ids are never assigned twice.",
  "Reconciliation is triggered through the verif export shim (the periodic loop fires every 30 s); user shard ids > 10000; data-directory clean-up after the 5-minute grace period is not exercised."),
 "C07": ("exploration",
  "runtime monitoring: real Engine.Restore under batch-threshold settings aimed at every record position (also as the retry of an attempt that broke off in mid-stream); table streams taken from the state machine while it applies writes back to back; real backup client + Maintenance service round trips incl. corrupted inputs; captures concurrent with a writer judged against the acknowledged-write history",
  "Restored content must equal the captured content exactly (no pair lost/altered/added, nothing of the pre-restore content left) for MaxInMemLogSize = 2*c_i and 2*c_i+2 for every cumulative record size c_i (threshold on / after every record, incl. the last), 0, 64 KiB, 1 MiB, with and without the final leader-index marker (recorded leader index == declared index); backup files with a flipped byte / altered manifest checksum / truncation must be refused without effect; captures taken while writes continue must be the state at exactly the declared index.",
  "MaxInMemLogSize below ~1 kB is not exercised (dragonboat then rejects the proposals forever and Restore retries by design); transport chunking is C18's subject, follower recovery end to end C05's."),
 "C11": ("exploration",
  "runtime monitoring: seeded event scripts on the real IndexNotificationQueue judged at barriers (Notify+Len), the real ForwardingKVServer under scripted orders of leader reply / notification / cancellation, the real table state machine wired to the real queue (an announced applied index implies the write is readable), and follower-API writes read back on the same node end to end (incl. no-op deletes through a slowly applying follower, every acknowledgement compared with the applied leader index, writes through a restarted follower node with the notification held back until the waiter is registered); process death supervised; race detector build",
  "No early release, prompt release of every live waiter after a sufficient notification, exactly one answer per waiter (checked after quiescence, re-examined at 3x the bound), Len never below the number of live waiters, the event loop keeps answering (wedge detection) for scripts mixing live, cancelled and expired waiters across sweeps incl. revision 0; the RPC returns only after the node applied the leader revision or with the context error; acknowledged follower writes are visible to a same-node serializable read.",
  "One known finding: a waiter added after the notification that already covers it waits for the next notification (ack delayed although applied). Bounds are watchdogs re-checked once, sweeps are real time."),
 "C18": ("exploration",
  "runtime monitoring: reflective generators over all API message types with proto.Equal + presence-aware oracle and cross-check against the reference protobuf implementation; recycled-object decode patterns; concurrent compressor round trips under the race detector; snapshot/backup stream framing with adversarial short-read plans",
  "Every generated message survives the registered codec into fresh and recycled objects (both production recycling patterns); gzip/snappy/zstd return the original bytes under 16-64 goroutines sharing the pools; command sequences written to snapshot files and streamed through the real Writer/Reader (cuts aimed inside length prefixes and snappy chunk headers, real gRPC for a share of the streams) are read back with the same boundaries.",
  "One known finding in generated code (pooled Command keeps an empty range_end; latent, no production path decodes into pooled Commands). Hostile wire input is C16's subject."),
 "C05": ("exploration",
  "runtime monitoring: leader + follower clusters running the real replication stack in one process; every leader write issued and recorded by the harness; follower sandwich samples (index, dump, index) judged against the reference model's leader state at that index; bounded convergence; path counters from interceptors on the leader's replication server",
  "Scenarios (log tailing with Raft-internal entries in mid-log at message boundaries, a second consumer of the leader's log, a snapshot recovery interrupted by a node restart and retried, overlapping replication rounds fed to the real state machine, leader snapshot streams taken under writes, snapshot recovery after leader log compaction incl. batch-closing-last-pair and empty-table streams, writes during recovery, worker restart, engine restart, slow follower apply with proposal time-outs, table create/delete) with non-idempotent leader commands: every usable follower sample must equal the leader state at the recorded index, the index never moves backwards, the follower reaches the leader's final state and table set after the leader stops; the evidence shows how many Replicate calls, USE_SNAPSHOT answers and snapshot streams each run really contained.",
  "Single-node leader and follower clusters in the quick tier; a leader write that fails makes the run inconclusive; convergence = bounded progress (60 s, re-checked at 180 s); follower MaxInMemLogSize >= 1 MiB (must exceed the worker's 256 KiB proposals)."),
}

NOT_YET = {}

def main():
    props = [json.loads(l) for l in open(os.path.join(HERE, "properties.jsonl")) if l.strip()]
    ids = [p["id"] for p in props]
    try:
        commits = subprocess.check_output(["git", "-C", "/repo", "log", "--format=%h %s"], text=True).splitlines()
    except Exception:
        commits = []
    hook_commits = [c.split()[0] for c in commits if c.split(" ", 1)[1].startswith("verif:")]
    checks = []
    na = []
    for i in ids:
        if i in CHECKS and os.path.isdir(os.path.join(HERE, "harness", "cmd", i.lower())):
            cat, tech, text, note = CHECKS[i]
            checks.append({
                "property_id": i,
                "quick_cmd": f"./check {i} quick",
                "thorough_cmd": f"./check {i} thorough",
                "evidence_file": f"/verif/evidence/{i}.json",
                "replay_cmd_template": f"./check {i} --replay {{path}}",
                "engine": "harness",
                "level_claimed": {"category": cat, "text": text, "design_ref": f"DESIGN.md §3 {i}"},
                "level_note": note,
                "technique": tech,
            })
        else:
            na.append({"property_id": i, "reason": NOT_YET.get(i, "check not built yet (runtime-monitoring driver planned, see DESIGN.md §3); not claimed until it exists")})
    m = {
        "version": 1,
        "setup_cmd": "./check --setup",
        "hooks": {
            "guard": "verif",
            "enable": "drivers are built in /verif/harness with `go build -tags verif` against `replace github.com/jamf/regatta => /repo` (go.mod generated from /repo/go.mod at check time); the only hooks are two add-only export shims",
            "baseline_off_cmd": "./check --baseline-off",
            "source_commits": hook_commits,
            "add_only": True,
        },
        "engines": [{
            "name": "harness",
            "path": "/verif/harness",
            "serves_properties": [c["property_id"] for c in checks],
            "kind_free_text": "Go module linking the real regatta packages (and building the real binary) from /repo's working tree; one driver per property; monitors = reference models, history checkers (porcupine), crash-simulating FS, schedulers, race detector",
        }],
        "checks": checks,
        "not_applicable": na,
        "notes": "Technique family: runtime monitoring and sanitizers. Exit 0 = held on what was explored (KNOWN-FINDING lines possible), 1 = VIOLATION, 2 = check broken / coverage floor missed. See DESIGN.md.",
    }
    json.dump(m, open(os.path.join(HERE, "MANIFEST.json"), "w"), indent=1)
    print(f"MANIFEST.json: {len(checks)} checks, {len(na)} not claimed")

if __name__ == "__main__":
    main()
