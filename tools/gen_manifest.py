#!/usr/bin/env python3
"""Generates /verif/MANIFEST.json from the table below (one place to keep it current)."""
import json, os, subprocess, sys

HERE = os.path.dirname(os.path.dirname(os.path.abspath(__file__)))

# id -> (category, technique, level text, level note)
CHECKS = {
 "C01": ("exploration",
  "runtime monitoring: generated command histories on the real FSM and a real single-node engine, judged online against a reference sorted map",
  "Every response, sampled read, applied/leader index and the final dump of seeded command histories (nasty keys, all flag combinations, random apply batches, 1-2 MiB values) is compared with an executable reference map; held on the histories produced, nothing claimed beyond them.",
  "Trusts the reference model (internal/model) and pebble/dragonboat as libraries; keys non-empty; fields nobody asked for are not judged."),
 "C02": ("exploration",
  "runtime monitoring: generated transactions embedded in apply batches of the real FSM, differential write-path vs read-only path, concurrent-reader view monitor, engine run",
  "Succeeded flag, n-th response and post-state of seeded transactions (range/existence/ordering predicates, overlapping ops, after uncommitted batch content) are compared with a reference model; read-only transactions are run through both Lookup and Update and must agree; concurrent readers must only ever see whole-transaction states.",
  "Trusts the reference model; crash atomicity is delegated to C04's crash histories (they contain transactions)."),
 "C03": ("exploration",
  "runtime monitoring: differential replay of one log on several real replicas (different apply batching, close/reopen, snapshot transfer in all format pairs) + reference model",
  "Per-entry results, raw content hash, dump and both indices of variant replicas are compared pairwise with a reference replica fed one entry per apply call, and with the model, for seeded logs mixing leader-indexed and plain entries.",
  "Clean close/reopen only (crashes are C04); snapshot transfer driven through the state machine interface as dragonboat drives it."),
 "C09": ("exploration",
  "runtime monitoring: relational oracle (prefix, ascending, limit, truthful more, message size, losslessness) over reads of the real FSM and real gRPC streams; point-in-time view monitor with a concurrent writer",
  "Every read of a request family (limits m-2..m+2 and unlimited; full/keys_only/count_only; single read and stream) over generated contents incl. multi-MiB tables aligned on the 4 MiB cut is judged against the model's full answer; streams over real gRPC with the client's default message limit.",
  "Packing of pairs into messages is not judged; transport limit = gRPC default 4 MiB as regatta's clients use."),
 "C12": ("exploration",
  "runtime monitoring: round-trip / injectivity / order oracles over an exhaustive small key space plus random and extreme keys; bounds observed through the real FSM",
  "All 780 keys over {00,01,02,FE,FF}^1..4 and all their pairs are checked exhaustively, plus >=150k random/extreme keys and pairs and sorted triples; wildcard and bookkeeping isolation additionally through range reads/deletes with extreme bounds on the real state machine, followed by reopen.",
  "Accepted key length 1..1024 bytes; the streaming key.Decoder (unused by production code) is observed but not judged."),
 "C04": ("fault_enumeration",
  "runtime monitoring with fault injection: crash-simulating strict in-memory FS (crash before every k-th mutating FS operation), recovery judged against the model's log prefixes",
  "Every mutating file-system operation boundary of seeded scenarios (first open, apply, Sync, close/reopen, snapshot recovery in all format pairs, stopped recovery) is used as a crash point (all k for small scenarios, every distinct site + random k for larger ones, plus second crashes during recovery); after each crash a new FSM is opened and must report an index >= the last completed Sync, show exactly the model state at that index, and reach the no-crash final state after replay with per-entry results equal to the model's.",
  "Fault model as stated in the property (strict MemFS: unsynced data and directory entries lost, synced ones kept); no torn writes / partial persistence; pebble trusted as a library."),
}

NOT_YET = {}

def main():
    props = [json.loads(l) for l in open(os.path.join(HERE, "properties.jsonl")) if l.strip()]
    ids = [p["id"] for p in props]
    try:
        commits = subprocess.check_output(["git", "-C", "/repo", "log", "--format=%h %s"], text=True).splitlines()
    except Exception:
        commits = []
    hook_commits = [c.split()[0] for c in commits if c.split(" ", 1)[1].startswith("verif:")]
    checks = []
    na = []
    for i in ids:
        if i in CHECKS and os.path.isdir(os.path.join(HERE, "harness", "cmd", i.lower())):
            cat, tech, text, note = CHECKS[i]
            checks.append({
                "property_id": i,
                "quick_cmd": f"./check {i} quick",
                "thorough_cmd": f"./check {i} thorough",
                "evidence_file": f"/verif/evidence/{i}.json",
                "replay_cmd_template": f"./check {i} --replay {{path}}",
                "engine": "harness",
                "level_claimed": {"category": cat, "text": text, "design_ref": f"DESIGN.md §3 {i}"},
                "level_note": note,
                "technique": tech,
            })
        else:
            na.append({"property_id": i, "reason": NOT_YET.get(i, "check not built yet (runtime-monitoring driver planned, see DESIGN.md §3); not claimed until it exists")})
    m = {
        "version": 1,
        "setup_cmd": "./check --setup",
        "hooks": {
            "guard": "verif",
            "enable": "drivers are built in /verif/harness with `go build -tags verif` against `replace github.com/jamf/regatta => /repo` (go.mod generated from /repo/go.mod at check time); the only hooks are two add-only export shims",
            "baseline_off_cmd": "./check --baseline-off",
            "source_commits": hook_commits,
            "add_only": True,
        },
        "engines": [{
            "name": "harness",
            "path": "/verif/harness",
            "serves_properties": [c["property_id"] for c in checks],
            "kind_free_text": "Go module linking the real regatta packages (and building the real binary) from /repo's working tree; one driver per property; monitors = reference models, history checkers (porcupine), crash-simulating FS, schedulers, race detector",
        }],
        "checks": checks,
        "not_applicable": na,
        "notes": "Technique family: runtime monitoring and sanitizers. Exit 0 = held on what was explored (KNOWN-FINDING lines possible), 1 = VIOLATION, 2 = check broken / coverage floor missed. See DESIGN.md.",
    }
    json.dump(m, open(os.path.join(HERE, "MANIFEST.json"), "w"), indent=1)
    print(f"MANIFEST.json: {len(checks)} checks, {len(na)} not claimed")

if __name__ == "__main__":
    main()
