#!/usr/bin/env python3
"""Generate harness/go.mod (+go.sum) mirroring /repo/go.mod.

The harness module must carry the same `require` blocks as regatta itself, otherwise
packages behind `cmd` resolve to module versions that are not in the offline cache.
Files are replaced atomically and only when their content changes, so concurrent check
runs do not trample each other.
"""
import os, re, sys, tempfile

repo, harness = sys.argv[1], sys.argv[2]
src = open(os.path.join(repo, "go.mod")).read()

out = []
for line in src.splitlines():
    if line.startswith("module "):
        out.append("module verifharness")
        continue
    if line.startswith("toolchain "):
        continue
    out.append(line)
text = "\n".join(out).rstrip() + "\n"
text += """
require (
	github.com/anishathalye/porcupine v1.3.0
	github.com/jamf/regatta v0.0.0
)

replace github.com/jamf/regatta => %s
""" % repo


def put(path, content):
    try:
        if open(path).read() == content:
            return
    except FileNotFoundError:
        pass
    d = os.path.dirname(path)
    fd, tmp = tempfile.mkstemp(dir=d, prefix=".gen.")
    with os.fdopen(fd, "w") as f:
        f.write(content)
    os.replace(tmp, path)


put(os.path.join(harness, "go.mod"), text)

# go.sum = /repo/go.sum + sums of the extra modules (taken from the module cache)
sums = open(os.path.join(repo, "go.sum")).read()
extra_path = os.path.join(harness, "go.sum.extra")
extra = open(extra_path).read() if os.path.exists(extra_path) else ""
lines = sorted(set((sums + "\n" + extra).splitlines()) - {""})
put(os.path.join(harness, "go.sum"), "\n".join(lines) + "\n")
