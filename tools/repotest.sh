#!/usr/bin/env bash
# Runs the repository's own tests (guard OFF) for the given packages without touching /repo/go.mod.
# usage: tools/repotest.sh [-C repo_dir] ./storage/... ./regattaserver/...
REPO=/repo
if [ "$1" = "-C" ]; then REPO="$2"; shift 2; fi
export GOFLAGS=-mod=mod GOPROXY=off GOSUMDB=off GOTOOLCHAIN=local
D=$(mktemp -d /var/tmp/repotest.XXXXXX); trap 'rm -rf $D' EXIT
cp "$REPO/go.mod" "$D/go.mod"; cp "$REPO/go.sum" "$D/go.sum"
cd "$REPO" && go test -modfile="$D/go.mod" -vet=off -count=1 -timeout 25m "$@"
