#!/usr/bin/env python3
"""Confirm a seeded change (from a sub-agent) and run the registered checks against it.

usage: seed_verify.py <name> --src <dir with patch.diff, README.md, demo files> \
          --demo <file-in-src>:<path-in-repo> [--demo ...] --run "<go test args>" \
          --checks C01,C03 [--tier quick] [--suite "./storage/... ./regattaserver/... ./replication/..."]

Steps (all in a scratch worktree of /repo at HEAD, removed afterwards):
  1. patch applies on HEAD; 2. demo PASSES without the patch; 3. demo FAILS with it;
  4. the existing suite (demo excluded) passes with the patch; 5. each listed check is run with
  VERIF_REPO=<worktree> and its verdict/signatures are recorded.
Result: /verif/seeded/<name>/{patch.diff, demo files, README.md, meta.json}.
"""
import argparse, json, os, re, shutil, subprocess, sys, tempfile, time

ENV = dict(os.environ, GOFLAGS="-mod=mod", GOPROXY="off", GOSUMDB="off", GOTOOLCHAIN="local")

def sh(cmd, cwd=None, env=None, timeout=3600):
    p = subprocess.run(cmd, shell=True, cwd=cwd, env=env or ENV, stdout=subprocess.PIPE, stderr=subprocess.STDOUT, text=True, errors='replace', timeout=timeout)
    return p.returncode, p.stdout

def main():
    ap = argparse.ArgumentParser()
    ap.add_argument("name")
    ap.add_argument("--src", required=True)
    ap.add_argument("--demo", action="append", default=[])
    ap.add_argument("--run", default="")
    ap.add_argument("--checks", required=True)
    ap.add_argument("--tier", default="quick")
    ap.add_argument("--suite", default="./storage/... ./regattaserver/... ./replication/...")
    ap.add_argument("--property", default=None)
    ap.add_argument("--needs", default="")
    ap.add_argument("--auto", action="store_true", help="derive --demo and --run from the files and demo_path.txt in --src")
    a = ap.parse_args()
    if a.auto:
        txt = open(os.path.join(a.src, "demo_path.txt")).read() if os.path.exists(os.path.join(a.src, "demo_path.txt")) else ""
        demos = []
        for root, _, files in os.walk(a.src):
            for f in files:
                if f.endswith("_test.go"):
                    rel = os.path.relpath(os.path.join(root, f), a.src)
                    if "/" in rel:
                        demos.append(f"{rel}:{rel}")
                    else:
                        m = re.search(r"([\w./-]+/" + re.escape(f) + r")", txt)
                        if not m:
                            print("cannot place demo", f); sys.exit(2)
                        demos.append(f"{rel}:{m.group(1).lstrip('./')}")
        a.demo = demos
        pk = sorted(set("./" + os.path.dirname(d.split(":")[1]) + "/" for d in demos))
        a.run = "-run TestSeedDemo " + " ".join(pk)
    wt = f"/var/tmp/sv-{a.name}"
    sh(f"git -C /repo worktree remove --force {wt}")
    rc, out = sh(f"git -C /repo worktree add --detach {wt} HEAD")
    if rc != 0:
        print(out); sys.exit(2)
    meta = {"name": a.name, "property": a.property or a.name.split("-")[0].upper(), "needs_to_manifest": a.needs,
            "base_commit": sh("git -C /repo rev-parse --short HEAD")[1].strip(), "ran": []}
    try:
        patch = os.path.join(a.src, "patch.diff")
        rc, out = sh(f"git apply --check {patch}", cwd=wt)
        three = False
        if rc != 0:  # context shifted by a later fix commit: three-way
            rc, out = sh(f"git apply -3 --check {patch}", cwd=wt)
            three = rc == 0
            meta["applied_three_way"] = three
        meta["patch_applies_on_head"] = rc == 0
        if rc != 0:
            print("PATCH DOES NOT APPLY:", out); meta["error"] = out[-800:]; return finish(a, meta, wt)
        for d in a.demo:
            src, dst = d.split(":")
            os.makedirs(os.path.dirname(os.path.join(wt, dst)), exist_ok=True)
            shutil.copy(os.path.join(a.src, src), os.path.join(wt, dst))
        cmd = f"go test -count=1 -timeout 20m -ldflags=-checklinkname=0 {a.run}"
        rc0, out0 = sh(cmd, cwd=wt)
        meta["ran"].append({"cmd": cmd + "   # unpatched", "exit": rc0, "tail": out0[-600:]})
        meta["demo_passes_without_patch"] = rc0 == 0
        sh(f"git apply -3 {patch} && git reset -q" if three else f"git apply {patch}", cwd=wt)
        rc1, out1 = sh(cmd, cwd=wt)
        meta["ran"].append({"cmd": cmd + "   # patched", "exit": rc1, "tail": out1[-1200:]})
        meta["demo_fails_with_patch"] = rc1 != 0 and "FAIL" in out1
        cmd = f"go test -count=1 -timeout 25m -skip 'TestSeedDemo' {a.suite}"
        rc2, out2 = sh(cmd, cwd=wt)
        fails = [l for l in out2.splitlines() if l.startswith("FAIL") or l.startswith("--- FAIL")]
        if rc2 != 0:  # cluster tests are occasionally flaky under load: retry the failing packages once
            pk = sorted(set(re.findall(r"^FAIL\s+(github.com/jamf/regatta/\S+)", out2, re.M)))
            if pk:
                rel = " ".join("./" + p.split("github.com/jamf/regatta/")[1] for p in pk)
                rc2, out2b = sh(f"go test -count=1 -timeout 25m -skip 'TestSeedDemo' {rel}", cwd=wt)
                fails = [l for l in out2b.splitlines() if l.startswith("FAIL") or l.startswith("--- FAIL")]
                meta["suite_retry_of"] = pk
        meta["ran"].append({"cmd": cmd + "   # patched, existing tests only", "exit": rc2, "failures": fails[:10]})
        meta["existing_suite_passes_with_patch"] = rc2 == 0
        # remove the demo before running checks (they only need the sources)
        for d in a.demo:
            os.remove(os.path.join(wt, d.split(":")[1]))
        sh("git checkout -- go.mod go.sum", cwd=wt)
        meta["checks"] = {}
        for c in a.checks.split(","):
            outdir = tempfile.mkdtemp(prefix="sv-out.", dir="/var/tmp")
            env = dict(ENV, VERIF_REPO=wt, VERIF_OUT=outdir)
            t0 = time.time()
            rc, out = sh(f"/verif/check {c} {a.tier}", cwd="/verif", env=env, timeout=7200)
            sigs = sorted(set(re.findall(r"signature=([^:]+(?::[^ :]+)*?):? ", out)))
            sigs = sorted(set(m.group(1) for m in re.finditer(r"^\s+signature=(\S+?): ", out, re.M)))
            meta["checks"][c] = {"exit": rc, "caught": rc == 1 and "VIOLATION property=" in out, "signatures": sigs[:12],
                                 "wall_s": round(time.time() - t0, 1), "tail": out[-500:]}
            shutil.rmtree(outdir, ignore_errors=True)
        meta["caught_by"] = [c for c, v in meta["checks"].items() if v["caught"]]
    finally:
        finish(a, meta, wt)

def finish(a, meta, wt):
    dst = f"/verif/seeded/{a.name}"
    os.makedirs(dst, exist_ok=True)
    shutil.copy(os.path.join(a.src, "patch.diff"), dst)
    if os.path.exists(os.path.join(a.src, "README.md")):
        shutil.copy(os.path.join(a.src, "README.md"), dst)
    for d in a.demo:
        src, dstp = d.split(":")
        name = "demo__" + dstp.replace("/", "__")
        shutil.copy(os.path.join(a.src, src), os.path.join(dst, name))
    meta["demo_files"] = {("demo__" + d.split(":")[1].replace("/", "__")): d.split(":")[1] for d in a.demo}
    meta["demo_command"] = f"go test -count=1 {a.run}"
    meta["confirmed"] = bool(meta.get("patch_applies_on_head") and meta.get("demo_passes_without_patch") and meta.get("demo_fails_with_patch") and meta.get("existing_suite_passes_with_patch"))
    json.dump(meta, open(os.path.join(dst, "meta.json"), "w"), indent=1)
    sh(f"git -C /repo worktree remove --force {wt}")
    print(json.dumps({k: meta.get(k) for k in ("name", "confirmed", "patch_applies_on_head", "demo_passes_without_patch", "demo_fails_with_patch", "existing_suite_passes_with_patch", "caught_by")}))
    for c, v in meta.get("checks", {}).items():
        print("  ", c, "exit", v["exit"], v["signatures"][:4])

if __name__ == "__main__":
    main()
