#!/usr/bin/env python3
"""Regenerates the seeded-change table in DESIGN.md §9.4 from /verif/seeded/*/meta.json."""
import glob, json, os, re

HERE = os.path.dirname(os.path.dirname(os.path.abspath(__file__)))
rows = []
for f in sorted(glob.glob(os.path.join(HERE, "seeded", "*", "meta.json"))):
    m = json.load(open(f))
    caught = []
    for c, v in (m.get("checks") or {}).items():
        if v.get("caught"):
            caught.append(f"{c} ({', '.join(v['signatures'][:2])})")
    missed = [c for c, v in (m.get("checks") or {}).items() if not v.get("caught")]
    note = m.get("note", "")
    rows.append((m["name"], m.get("property", ""), m.get("needs_to_manifest", "").replace("|", "/"), "yes" if m.get("confirmed") else "NO",
                 "; ".join(caught) or "—", ", ".join(missed) or "—", note))
out = ["| Change | Breaks | Needs to manifest | Confirmed | Caught by (signatures) | Run, silent | Note |", "|---|---|---|---|---|---|---|"]
for r in rows:
    out.append("| " + " | ".join(r) + " |")
n = len(rows)
c = sum(1 for r in rows if r[4] != "—")
own = sum(1 for r in rows if (r[1] + " (") in r[4])
out.append("")
out.append(f"{c} of {n} confirmed seeded changes are caught by at least one quick-tier check, {own} of {n} by the quick-tier check of the property they were aimed at.")
table = "\n".join(out)
p = os.path.join(HERE, "DESIGN.md")
s = open(p).read()
if "SEEDED_TABLE_PLACEHOLDER" in s:
    s = s.replace("SEEDED_TABLE_PLACEHOLDER", "<!-- seeded-table-begin -->\n" + table + "\n<!-- seeded-table-end -->")
else:
    s = re.sub(r"<!-- seeded-table-begin -->.*?<!-- seeded-table-end -->", "<!-- seeded-table-begin -->\n" + table.replace("\\", "\\\\") + "\n<!-- seeded-table-end -->", s, flags=re.S)
open(p, "w").write(s)
print(f"{c}/{n} caught")
