#!/usr/bin/env python3
"""Re-run the registered checks against already confirmed seeded changes (/verif/seeded/<name>).

usage: seed_recheck.py [--only-own] [--tier quick] [--jobs 4] [name ...]

For each change: scratch worktree of /repo at HEAD, `git apply patch.diff`, then every check listed
in its meta.json (plus the check of the property it was aimed at) is run with VERIF_REPO=<worktree>;
meta.json's "checks" / "caught_by" are updated. Demo and suite are not repeated (they were confirmed
by seed_verify.py and are recorded in meta.json).
"""
import argparse, json, os, re, shutil, subprocess, sys, tempfile, time
from concurrent.futures import ThreadPoolExecutor

ENV = dict(os.environ, GOFLAGS="-mod=mod", GOPROXY="off", GOSUMDB="off", GOTOOLCHAIN="local")
HERE = os.path.dirname(os.path.dirname(os.path.abspath(__file__)))


def sh(cmd, cwd=None, env=None, timeout=7200):
    p = subprocess.run(cmd, shell=True, cwd=cwd, env=env or ENV, stdout=subprocess.PIPE, stderr=subprocess.STDOUT, text=True, errors='replace', timeout=timeout)
    return p.returncode, p.stdout


def one(name, a):
    d = os.path.join(HERE, "seeded", name)
    meta = json.load(open(os.path.join(d, "meta.json")))
    own = meta.get("property") or name.split("-")[0].upper()
    checks = [own] if a.only_own else sorted(set([own] + list((meta.get("checks") or {}).keys())))
    wt = f"/var/tmp/sr-{name}"
    sh(f"git -C /repo worktree remove --force {wt}")
    rc, out = sh(f"git -C /repo worktree add --detach {wt} HEAD")
    if rc != 0:
        return name, "worktree: " + out[-200:]
    try:
        rc, out = sh(f"git apply {d}/patch.diff", cwd=wt)
        if rc != 0:  # context shifted by a later fix commit: three-way
            rc, out = sh(f"git apply -3 {d}/patch.diff && git reset -q", cwd=wt)
            meta["applied_three_way"] = rc == 0
        if rc != 0:
            meta["patch_applies_on_head"] = False
            meta["recheck_error"] = out[-400:]
            json.dump(meta, open(os.path.join(d, "meta.json"), "w"), indent=1)
            return name, "PATCH DOES NOT APPLY"
        meta.setdefault("checks", {})
        for c in checks:
            outdir = tempfile.mkdtemp(prefix="sr-out.", dir="/var/tmp")
            env = dict(ENV, VERIF_REPO=wt, VERIF_OUT=outdir)
            t0 = time.time()
            rc, out = sh(f"{HERE}/check {c} {a.tier}", cwd=HERE, env=env)
            sigs = sorted(set(m.group(1) for m in re.finditer(r"^\s+signature=(\S+?): ", out, re.M)))
            meta["checks"][c] = {"exit": rc, "caught": rc == 1 and "VIOLATION property=" in out, "signatures": sigs[:12],
                                 "wall_s": round(time.time() - t0, 1), "tail": out[-500:]}
            shutil.rmtree(outdir, ignore_errors=True)
        meta["caught_by"] = [c for c, v in meta["checks"].items() if v["caught"]]
        meta["rechecked_with_verif_commit"] = sh(f"git -C {HERE} rev-parse --short HEAD")[1].strip()
        meta["base_commit"] = sh("git -C /repo rev-parse --short HEAD")[1].strip()
        json.dump(meta, open(os.path.join(d, "meta.json"), "w"), indent=1)
        return name, f"own {own}: {'caught' if meta['checks'][own]['caught'] else 'SILENT (exit %d)' % meta['checks'][own]['exit']}; caught_by {meta['caught_by']}"
    finally:
        sh(f"git -C /repo worktree remove --force {wt}")


def main():
    ap = argparse.ArgumentParser()
    ap.add_argument("names", nargs="*")
    ap.add_argument("--only-own", action="store_true")
    ap.add_argument("--tier", default="quick")
    ap.add_argument("--jobs", type=int, default=4)
    a = ap.parse_args()
    names = a.names or sorted(n for n in os.listdir(os.path.join(HERE, "seeded")) if os.path.exists(os.path.join(HERE, "seeded", n, "meta.json")))
    with ThreadPoolExecutor(a.jobs) as ex:
        for name, res in ex.map(lambda n: one(n, a), names):
            print(name, res, flush=True)
    sh("git -C /repo worktree prune")


if __name__ == "__main__":
    main()
