#!/bin/bash
cd /verif
S=/var/tmp/seed/out; L=/var/tmp/svlog; mkdir -p $L
v() { n=$1; shift; python3 tools/seed_verify.py "$n" --src $S/$n "$@" > $L/$n.log 2>&1; }
F=storage/table/fsm/zz_seed_demo_test.go
v c04-1 --demo zz_seed_demo_test.go:$F --run "-run TestSeedDemo ./storage/table/fsm/" --checks C04 --needs "apply call with a plain write followed by a reading command, memtable rotation + background flush exactly between the two commits, crash before the next flush"
v c04-3 --demo zz_seed_demo_test.go:$F --run "-run TestSeedDemo ./storage/table/fsm/" --checks C04,C03 --needs "one apply call accumulating >=16 MiB before its last entry, crash between the flush of the early commit and the next flush"
v c06-2 --demo zz_seed_demo_test.go:regattaserver/zz_seed_demo_test.go --run "-run TestSeedDemo\$ ./regattaserver/" --checks C06 --needs "entry at the compaction index cached before a log compaction, request starting exactly at the compaction index"
v c14-1 --demo zz_seed_demo_test.go:storage/table/zz_seed_demo_test.go --run "-run TestSeedDemo ./storage/table/" --checks C14 --needs "two id allocations whose sequence read and write interleave (create on node A vs create on node B, or Restore vs Create on one node)"
v c16-1 --demo zz_seed_demo_test.go:regattaserver/zz_seed_demo_test.go --run "-run TestSeedDemo ./regattaserver/" --checks C16 --needs "valid-UTF-8 multi-byte table name of <=200 runes but >249 bytes on a real file system"
