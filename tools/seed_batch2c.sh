#!/bin/bash
cd /verif
S=/var/tmp/seed/out; L=/var/tmp/svlog; mkdir -p $L
v() { n=$1; shift; python3 tools/seed_verify.py "$n" --src $S/$n "$@" > $L/$n.log 2>&1; }
F=storage/table/fsm/zz_seed_demo_test.go
v c07-2 --demo zz_seed_demo_test.go:storage/table/zz_seed_demo_test.go --run "-run TestSeedDemo ./storage/table/" --checks C07 --needs "leader stream whose batch threshold is crossed exactly by the last data record, or an empty table (final marker's leader index never proposed)"
v c08-1 --demo zz_seed_demo_test.go:$F --run "-run TestSeedDemo ./storage/table/fsm/" --checks C08,C03 --needs "snapshot-format install into a replica whose previous leader index differs; leader index read before the next replicated update"
v c08-2 --demo zz_seed_demo_test.go:$F --run "-run TestSeedDemo ./storage/table/fsm/" --checks C08,C03 --needs "checkpoint-format saver, commands applied AND flushed (Sync / second PrepareSnapshot) between prepare and save"
v c04-1 --demo zz_seed_demo_test.go:$F --run "-run TestSeedDemo ./storage/table/fsm/" --checks C04 --needs "apply call with a plain write followed by a reading command, memtable rotation + background flush exactly between the two commits, crash before the next flush"
v c04-2 --demo zz_seed_demo_test.go:$F --run "-run TestSeedDemo ./storage/table/fsm/" --checks C04 --needs "snapshot-format RecoverFromSnapshot, then a crash any time after the directory switch-over became durable (ingested SSTs never synced)"
v c04-3 --demo zz_seed_demo_test.go:$F --run "-run TestSeedDemo ./storage/table/fsm/" --checks C04,C03 --needs "one apply call accumulating >=16 MiB before its last entry, crash between the flush of the early commit and the next flush"
v c10-1 --demo storage/table/fsm/zz_seed_demo_test.go:$F --demo storage/zz_seed_demo_test.go:storage/zz_seed_demo_test.go --run "-run TestSeedDemo ./storage/table/fsm/ ./storage/" --checks C10,C01,C03 --needs ">=2 concurrent proposals batched into one apply call: single-key read, write of K, single-key read of K (stale shared iterator)"
v c10-2 --demo storage/table/zz_seed_demo_test.go:storage/table/zz_seed_demo_test.go --run "-run TestSeedDemo ./storage/table/" --checks C10 --needs "read-only txn with an empty compare list served by a replica whose apply lags an acknowledged write"
v c14-1 --demo zz_seed_demo_test.go:storage/table/zz_seed_demo_test.go --run "-run TestSeedDemo ./storage/table/" --checks C14 --needs "two id allocations whose sequence read and write interleave (create on node A vs create on node B, or Restore vs Create on one node)"
v c14-2 --demo zz_seed_demo_test.go:storage/kv/zz_seed_demo_test.go --run "-run TestSeedDemo ./storage/kv/" --checks C14,C13 --needs "catalogue replica of one node lags, a table is deleted, the catalogue shard compacts past it, the node catches up by snapshot"
