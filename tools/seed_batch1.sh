#!/bin/bash
# Confirms the first batch of sub-agent seeded changes and runs the checks against them.
# usage: seed_batch1.sh g1|g2|g3   (three groups, run in parallel)
cd /verif
S=/var/tmp/seed/out
F=storage/table/fsm/zz_seed_demo_test.go
L=/var/tmp/svlog
mkdir -p $L
v() { n=$1; shift; python3 tools/seed_verify.py "$n" --src $S/$n "$@" > $L/$n.log 2>&1; }
case "$1" in
g1)
v c01-1 --demo zz_seed_demo_test.go:$F --run "-run TestSeedDemo ./storage/table/fsm/" --checks C01,C03,C04 --needs "key written twice, then single-key delete, then a memtable flush (Sync/Close/checkpoint)"
v c01-2 --demo zz_seed_demo_test.go:$F --run "-run TestSeedDemo ./storage/table/fsm/" --checks C01,C02 --needs "count-only delete followed by a prev_kv put inside one apply call / SEQUENCE / TXN branch"
v c02-1 --demo zz_seed_demo_test.go:$F --run "-run TestSeedDemo ./storage/table/fsm/" --checks C02,C01,C03 --needs "earlier plain command of the same apply batch/SEQUENCE modifies a key a txn predicate reads, batch not yet indexed"
v c02-2 --demo zz_seed_demo_test.go:$F --run "-run TestSeedDemo ./storage/table/fsm/" --checks C02 --needs "read-only txn without predicates and >=2 reads, concurrent write commit between its reads"
;;
g2)
v c03-1 --demo zz_seed_demo_test.go:$F --run "-run TestSeedDemo ./storage/table/fsm/" --checks C03,C04 --needs "same as c01-1 (SingleDelete), seen as replica divergence after restart / checkpoint snapshot"
v c03-2 --demo zz_seed_demo_test.go:$F --run "-run TestSeedDemo ./storage/table/fsm/" --checks C03 --needs "log whose leader index decreases (reset DUMMY li=0) batched with an earlier higher one"
v c09-1 --demo zz_seed_demo_test.go:$F --run "-run TestSeedDemo ./storage/table/fsm/" --checks C09 --needs "another key-encoding operation between opening a lazy range read and its first message (pooled buffer aliasing)"
v c09-2 --demo zz_seed_demo_test.go:$F --run "-run TestSeedDemo ./storage/table/fsm/" --checks C09 --needs ">4 MiB range made of >130 small pairs per message (framing overhead not counted)"
;;
g3)
v c12-1 --demo storage/table/key/zz_seed_demo_test.go:storage/table/key/zz_seed_demo_test.go --demo storage/table/fsm/zz_seed_demo_test.go:$F --run "-run TestSeedDemo ./storage/table/key/ ./storage/table/fsm/" --checks C12,C01 --needs "user key of 1020-1024 bytes"
v c12-2 --demo storage/table/fsm/zz_seed_demo_test.go:$F --run "-run TestSeedDemo ./storage/table/fsm/" --checks C12,C01 --needs "stored all-zero key shorter than 1019 bytes plus a range delete starting at the \\0 wildcard"
;;
esac
