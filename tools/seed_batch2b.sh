#!/bin/bash
cd /verif
S=/var/tmp/seed/out; L=/var/tmp/svlog; mkdir -p $L
v() { n=$1; shift; python3 tools/seed_verify.py "$n" --src $S/$n "$@" > $L/$n.log 2>&1; }
v c11-2 --demo zz_seed_demo_test.go:storage/zz_seed_demo_test.go --run "-run TestSeedDemoEveryCallGetsExactlyOneAnswer ./storage/" --checks C11 --needs ">=6 waiters on one table, two expired with one in the other's heap subtree and a smaller last element elsewhere (sweep removes by recorded positions)"
v c11-3 --demo zz_seed_demo_test.go:storage/zz_seed_demo_test.go --run "-run TestSeedDemoAnsweredAsSoonAsApplied ./storage/" --checks C11 --needs "sweep removes the minimum waiter and the survivor at the heap root is not the new minimum (heap.New never sifts the root)"
v c11-1 --demo zz_seed_demo_test.go:replication/zz_seed_demo_test.go --run "-run TestSeedDemoFollowerAckIsReadYourWrites ./replication/" --checks C11,C05 --needs "one replication response over 256 KiB whose chunk boundary falls right before the forwarded write, and a read between the two proposals"
v c06-1 --demo zz_seed_demo_test.go:regattaserver/zz_seed_demo_test.go --run "-run TestSeedDemo\$ ./regattaserver/" --checks C06 --needs "cache filled above some index, request starts below the cache, log read cut by the size limit before reaching the cache, varying entry sizes"
v c06-2 --demo zz_seed_demo_test.go:regattaserver/zz_seed_demo_test.go --run "-run TestSeedDemo\$ ./regattaserver/" --checks C06 --needs "entry at the compaction index cached before a log compaction, request starting exactly at the compaction index"
